/-
  wvmodel: line-protocol driver over the executable model.  One request per line on stdin,
  one canonical answer per line on stdout.  Core Lean only.
-/
import Wharf.Model.Basic
import Wharf.Model.Util
import Wharf.Model.Rsync
import Wharf.Model.Overlay
import Wharf.Model.Validate
import Wharf.Model.Bsdiff
import Wharf.Model.Lru
import Wharf.Model.Patch
import Wharf.Model.Rediff
import Wharf.Model.Wire
import Wharf.Model.Proto
import Wharf.Model.FS
import Wharf.Model.TreeValidate
import Wharf.Model.SafeKeeper
import Wharf.Model.Archive
import Wharf.Model.Heal
import Wharf.Model.Commit
import Wharf.Model.PatchResume
import Wharf.Model.FreshBowl

open Wharf Wharf.Util

def showOp (src : Content) : Rsync.Op → String
  | .range f i s => s!"R {f} {i} {s}"
  | .data st len => s!"D {len} {fnvContent src st len}"

/-- `c11 <bs> <maxDataOp> <pref|-1> <nold> <old>... <new>` -/
def doC11 (args : List String) : IO String := do
  match args with
  | bs :: mx :: pref :: nold :: rest =>
    let n := parseNat nold
    let oldToks := rest.take n
    let newTok := rest.getD n "x:"
    let olds ← oldToks.mapM readContent
    let new ← readContent newTok
    let src := Content.ofByteArray new
    let prefI := parseInt pref
    let pref : Option Nat := if prefI < 0 then none else some prefI.toNat
    let P : Rsync.Params := { bs := parseNat bs, maxDataOp := parseNat mx }
    let ops := Rsync.computeDiff P (olds.map Content.ofByteArray) src pref
    return ";".intercalate (ops.map (showOp src))
  | _ => return "bad-op"

def showOOp : Overlay.OOp → String
  | .skip n => s!"S {n}"
  | .fresh d => s!"F {d.length} {fnvList d}"
  | .done => "E"

def parseEvents (s : String) : List Overlay.Ev :=
  (s.splitOn ",").filterMap fun t =>
    if t.startsWith "w" then some (.write (parseNat (t.drop 1).toString))
    else if t == "f" || t == "x" then some .flush
    else none

/-- `c14 <bufSize> <threshold> <old> <new> <events>` -/
def doC14 (args : List String) : IO String := do
  match args with
  | [bufS, thr, oldT, newT, evs] =>
    let old := (← readContent oldT).toList
    let new := (← readContent newT).toList
    let P : Overlay.Params := { bufSize := parseNat bufS, threshold := parseNat thr }
    let ws := Overlay.bufioWindows P.bufSize (parseEvents evs) 0
    let ops := Overlay.writeWindows P old new 0 ws
    let res := Overlay.patch (ops ++ [.done]) old
    return ";".intercalate (ops.map showOOp) ++ s!" | {res.length} {fnvList res}"
  | [bufS, thr, oldT, newT] =>
    -- no events: empty new content
    let old := (← readContent oldT).toList
    let new := (← readContent newT).toList
    let P : Overlay.Params := { bufSize := parseNat bufS, threshold := parseNat thr }
    let ops := Overlay.writeWindows P old new 0 []
    let res := Overlay.patch (ops ++ [.done]) old
    return ";".intercalate (ops.map showOOp) ++ s!" | {res.length} {fnvList res}"
  | _ => return "bad-op"

def showWound (w : Validate.Wound) : String :=
  let k := match w.kind with
    | .file => "W" | .closedFile => "H" | .dir => "D" | .symlink => "L"
  s!"{k} {w.start} {w.stop}"

def splitAtCuts : List Nat → List Byte → List (List Byte)
  | [], _ => []
  | n :: ns, l => l.take n :: splitAtCuts ns (l.drop n)

/-- `c18 <e|w> <bs> <S> <D> <cuts|->` : write D in the given slices, stop at the first failing call, close. -/
def doC18 (args : List String) : IO String := do
  match args with
  | [mode, bsS, sT, dT, cutS] =>
    let S := (← readContent sT).toList
    let D := (← readContent dT).toList
    let bs := parseNat bsS
    let wound := mode == "w"
    let cuts := if cutS == "-" then [] else (cutS.splitOn ",").map parseNat
    let slices := splitAtCuts cuts D
    let mut d : Validate.Drip := {}
    let mut okCalls := 0
    for sl in slices do
      if d.err then break
      d := Validate.dripWrite wound bs S 0 d sl
      if !d.err then okCalls := okCalls + 1
    let failedBefore := d.err
    d := Validate.dripClose wound bs S 0 d
    let closeS := if d.err then "err" else "ok"
    let _ := failedBefore
    return s!"calls={okCalls}/{slices.length} close={closeS} inner={d.inner.length} {fnvList d.inner} wounds=" ++
      ";".intercalate (d.wounds.map showWound)
  | _ => return "bad-op"

def showCtrl : Bsdiff.Ctrl → String
  | .eof => "EOF"
  | .op a c s => s!"A {a.length} {fnvList a} C {c.length} {fnvList c} S {s}"

/-- `c12 <partitions> <old> <new>` -/
def doC12 (args : List String) : IO String := do
  match args with
  | [pS, oT, nT] =>
    let old := (← readContent oT).data
    let new := (← readContent nT).data
    match Bsdiff.diffExec 131072 (parseNat pS) old new with
    | .panic s => return s!"PANIC {s}"
    | .err e => return s!"ERR {e}"
    | .ok cs =>
      let res := match Bsdiff.applySeries old cs ⟨0, []⟩ with
        | .ok (st, _) => s!"{st.out.length} {fnvList st.out}"
        | .err e => s!"APPLY-ERR {e}"
        | .panic p => s!"APPLY-PANIC {p}"
      return " / ".intercalate (cs.map showCtrl) ++ " || " ++ res
  | _ => return "bad-op"

def parseLruOps (s : String) : List Lru.Op :=
  (s.splitOn ",").filterMap fun t =>
    if t.startsWith "s" then some (.seek (parseInt (t.drop 1).toString))
    else if t.startsWith "r" then some (.read (parseNat (t.drop 1).toString))
    else none

/-- `lru <chunk> <cap> <file> <ops>` -/
def doLru (args : List String) : IO String := do
  match args with
  | [cS, capS, fT, opsS] =>
    let file := (← readContent fT).toList
    match Lru.run (Lru.new (parseNat cS) (parseNat capS) file) (parseLruOps opsS) with
    | .panic s => return s!"PANIC {s}"
    | .err e => return s!"ERR {e}"
    | .ok (lf, outs) =>
      let strs := (outs.zip (parseLruOps opsS)).map fun (o, op) =>
        match o, op with
        | none, _ => "-"
        | some _, .seek _ => "ok"
        | some b, .read _ => s!"{b.length} {fnvList b}"
      return ";".intercalate strs ++ s!" hits={lf.hits} misses={lf.misses}"
  | _ => return "bad-op"

/-- read `<n> (path tok)*` from the argument list; returns the files and the remaining arguments -/
def readFiles : Nat → List String → IO (List (String × ByteArray) × List String)
  | 0, rest => return ([], rest)
  | n + 1, path :: tok :: rest => do
    let b ← readContent tok
    let (fs, rest') ← readFiles n rest
    return ((path, b) :: fs, rest')
  | _, rest => return ([], rest)

def fnvOps (bs : Nat) (olds : Array Content) (src : Content) (ops : List Rsync.Op) : Nat × UInt64 := Id.run do
  let mut h := fnvOffset
  let mut n := 0
  for op in ops do
    match op with
    | .data st len =>
      for k in [0:len] do
        h := fnvStep h (src.get (st + k))
      n := n + len
    | .range f i sp =>
      match olds[f]? with
      | none => pure ()
      | some old =>
        let opSize := (sp - 1) * bs + Rsync.blockLen bs old.size (i + sp - 1)
        let len := min opSize (old.size - bs * i)
        for k in [0:len] do
          h := fnvStep h (old.get (bs * i + k))
        n := n + len
  return (n, h)

/-- `diffbuild <bs> <maxDataOp> <nOld> (path tok)* <nNew> (path tok)*`
    answers: `<messages> | <per new file: replayed len fnv> | <per new file: blocks weak:len,...> | fresh reused` -/
def doDiffBuild (args : List String) : IO String := do
  match args with
  | bsS :: mxS :: nOldS :: rest =>
    let (oldFiles, rest) ← readFiles (parseNat nOldS) rest
    match rest with
    | nNewS :: rest =>
      let (newFiles, _) ← readFiles (parseNat nNewS) rest
      let P : Rsync.Params := { bs := parseNat bsS, maxDataOp := parseNat mxS }
      let olds := oldFiles.map fun (p, b) => (p, Content.ofByteArray b)
      let news := newFiles.map fun (p, b) => (p, Content.ofByteArray b)
      let oldArr := (olds.map (·.2)).toArray
      let series := Patch.diffAll P olds 0 news
      let msgs := series.map fun (i, src, ops) =>
        ";".intercalate ((s!"H 0 {i}" :: ops.map (showOp src)) ++ ["E"])
      let replays := series.map fun (_, src, ops) =>
        let (n, h) := fnvOps P.bs oldArr src ops
        s!"{n} {h}"
      let sigs := news.map fun (_, c) =>
        ",".intercalate ((Rsync.fileEntries P.bs 0 c).map fun e =>
          let len := if c.size = 0 then 0 else Rsync.blockLen P.bs c.size e.index
          s!"{e.weak.toNat}:{len}")
      let fresh := series.foldl (fun acc (_, _, ops) => acc + (ops.map Rsync.freshOf).sum) 0
      let reused := series.foldl (fun acc (_, _, ops) => acc + (ops.map (Rsync.reusedOf P.bs oldArr)).sum) 0
      return ";".intercalate msgs ++ " | " ++ ";".intercalate replays ++ " | " ++ ";".intercalate sigs ++ s!" | {fresh} {reused}"
    | _ => return "bad-op"
  | _ => return "bad-op"

/-- message file: one message per line: `H type idx` | `O type f i s hexdata|-` | `B t` | `C hexadd|- hexcopy|- seek eof(0/1)` -/
def parseMsgLine (l : String) : Option Patch.WMsg :=
  let hx (t : String) : List Byte := if t == "-" then [] else (hexToBytes t).toList
  match l.trimAscii.toString.splitOn " " with
  | ["H", t, i] => some [(Patch.fSyncHeaderType, .varint (parseInt t)), (Patch.fSyncHeaderFileIndex, .varint (parseInt i))]
  | ["O", t, f, i, sp, d] =>
    some [(Patch.fOpType, .varint (parseInt t)), (Patch.fOpFileIndex, .varint (parseInt f)),
          (Patch.fOpBlockIndex, .varint (parseInt i)), (Patch.fOpBlockSpan, .varint (parseInt sp)),
          (Patch.fOpData, .bytes (hx d))]
  | ["B", t] => some [(Patch.fBsdiffTargetIndex, .varint (parseInt t))]
  | ["C", a, c, sk, e] =>
    some [(Patch.fCtrlAdd, .bytes (hx a)), (Patch.fCtrlCopy, .bytes (hx c)), (Patch.fCtrlSeek, .varint (parseInt sk)),
          (Patch.fCtrlEof, .varint (parseInt e))]
  | _ => none

def readMsgs (path : String) : IO (List Patch.WMsg) := do
  let txt ← IO.FS.readFile path
  return (txt.splitOn "\n").filterMap parseMsgLine

def showMsgAs (kind : String) (m : Patch.WMsg) : String :=
  match kind with
  | "H" => let h := Patch.asSyncHeader m; s!"H {h.type} {h.fileIndex}"
  | "B" => s!"B {Patch.asBsdiffHeader m}"
  | "C" => let c := Patch.asControl m
           if c.eof then "CE" else s!"C {c.add.length} {fnvList c.add} {c.copy.length} {fnvList c.copy} {c.seek}"
  | _ => let o := Patch.asSyncOp m
         if o.type == 0 then s!"R {o.fileIndex} {o.blockIndex} {o.blockSpan}"
         else if o.type == 1 then s!"D {o.data.length} {fnvList o.data}"
         else if o.type == 2049 then "E" else s!"O? {o.type}"

def bytesHex (b : List Byte) : String :=
  if b.isEmpty then "-" else
    let d (n : Nat) : Char := if n < 10 then Char.ofNat (48 + n) else Char.ofNat (87 + n)
    String.ofList (b.flatMap fun x => [d (x.toNat / 16), d (x.toNat % 16)])

def showMsgFull (kind : String) (m : Patch.WMsg) : String :=
  match kind with
  | "H" => let h := Patch.asSyncHeader m; s!"H {h.type} {h.fileIndex}"
  | "B" => s!"B {Patch.asBsdiffHeader m}"
  | "C" => let c := Patch.asControl m; s!"C {bytesHex c.add} {bytesHex c.copy} {c.seek} {if c.eof then 1 else 0}"
  | _ => let o := Patch.asSyncOp m; s!"O {o.type} {o.fileIndex} {o.blockIndex} {o.blockSpan} {bytesHex o.data}"

/-- `protodec <H|O|B|C> <hex|->`: `proto.Unmarshal` of the bytes into that message type, in the model:
    the typed view in full, or `err`. -/
def doProtoDec (args : List String) : IO String := do
  match args with
  | [kind, h] =>
    let bs : List Byte := if h == "-" then [] else (hexToBytes h).toList
    match Proto.unmarshal bs with
    | none => return "err"
    | some m => return showMsgFull kind m
  | _ => return "bad-op"

/-- `protoenc <message line>`: `proto.Marshal` of that message in the model, as hex. -/
def doProtoEnc (args : List String) : IO String := do
  match parseMsgLine (" ".intercalate args), args.head? with
  | some m, some "H" => return bytesHex (Proto.encode (Proto.ofSyncHeader (Patch.asSyncHeader m)))
  | some m, some "O" => return bytesHex (Proto.encode (Proto.ofSyncOp (Patch.asSyncOp m)))
  | some m, some "B" => return bytesHex (Proto.encode (Proto.ofBsdiffHeader (Patch.asBsdiffHeader m)))
  | some m, some "C" => return bytesHex (Proto.encode (Proto.ofControl (Patch.asControl m)))
  | _, _ => return "bad-op"

def csvNats (s : String) : List Nat := if s == "-" || s == "" then [] else (s.splitOn ",").map parseNat

def showOutcomeRes : Outcome Patch.Res → String
  | .panic site => s!"panic {site}"
  | .err _ => "err"
  | .ok r =>
    let outs := r.out.map fun (i, b) => s!"{i}:{b.length}:{fnvList b}"
    let calls := r.calls.map fun c => match c with
      | .getWriter i => s!"w{i}"
      | .transpose a b => s!"t{a}<{b}"
    s!"ok touched={r.touched} out={",".intercalate outs} calls={",".intercalate calls} reads={",".intercalate (r.reads.map toString)}"

/-- `patch <bs> <msgfile> <newsizes csv> <whitelist csv | *> <nOld> (path tok)*` -/
def doPatch (args : List String) : IO String := do
  match args with
  | bsS :: mf :: newS :: wlS :: nOldS :: rest =>
    let msgs ← readMsgs mf
    let (oldFiles, _) ← readFiles (parseNat nOldS) rest
    let olds := (oldFiles.map fun (_, b) => b.toList).toArray
    let E : Patch.Env := { bs := parseNat bsS, oldSizes := olds.map (·.length), newSizes := (csvNats newS).toArray,
                           pool := Patch.plainPool olds, whitelist := if wlS == "*" then none else some (csvNats wlS) }
    return showOutcomeRes (Patch.patch E msgs)
  | _ => return "bad-op"

def showCkpt (c : PatchResume.Ckpt) : String :=
  match c.mid with
  | .rsync written => s!"{c.fileIndex}:{c.msgIndex}:R:{written}:-:-"
  | .bsdiff target oldOffset written => s!"{c.fileIndex}:{c.msgIndex}:B:{written}:{oldOffset}:{target}"

/-- `ckpts <bs> <msgfile> <newsizes csv> <nOld> (path tok)*` (the arguments of `patch` without the whitelist):
    every point at which the patcher can hand out a checkpoint during the uninterrupted application, in order,
    as space-separated tokens `fileIndex:msgIndex:kind:written:oldOffset:target` (kind `R` rsync, `B` bsdiff;
    `-` for the fields an rsync checkpoint does not have; msgIndex = messages consumed counting from the first
    SyncHeader); `err` / `panic <site>` when the application fails. -/
def doCkpts (args : List String) : IO String := do
  match args with
  | bsS :: mf :: newS :: nOldS :: rest =>
    let msgs ← readMsgs mf
    let (oldFiles, _) ← readFiles (parseNat nOldS) rest
    let olds := (oldFiles.map fun (_, b) => b.toList).toArray
    let E : Patch.Env := { bs := parseNat bsS, oldSizes := olds.map (·.length), newSizes := (csvNats newS).toArray,
                           pool := Patch.plainPool olds, whitelist := none }
    match PatchResume.patchCk E msgs with
    | .panic site => return s!"panic {site}"
    | .err _ => return "err"
    | .ok (_, cks) => return " ".intercalate (cks.map showCkpt)
  | _ => return "bad-op"

def showMappings : Outcome (List (Option (Nat × Int))) → String
  | .panic site => s!"panic {site}"
  | .err _ => "err"
  | .ok ms => ",".intercalate (ms.map fun m => match m with | none => "-" | some (t, n) => s!"{t}:{n}")

def readPathSizes : Nat → List String → List (String × Nat) × List String
  | 0, rest => ([], rest)
  | n + 1, p :: sz :: rest => let (xs, r) := readPathSizes n rest; ((p, parseNat sz) :: xs, r)
  | _, rest => ([], rest)

/-- `analyze <bs> <limit> <force 0/1> <msgfile> <nOld> (path size)* <nNew> (path size)*` -/
def doAnalyze (args : List String) : IO String := do
  match args with
  | bsS :: limS :: fS :: mf :: nOldS :: rest =>
    let msgs ← readMsgs mf
    let (olds, rest) := readPathSizes (parseNat nOldS) rest
    match rest with
    | nNewS :: rest =>
      let (news, _) := readPathSizes (parseNat nNewS) rest
      let P : Rediff.Params := { bs := parseNat bsS, sizeLimit := parseNat limS, forceMapAll := fS == "1", partitions := 0, scanBlock := 131072 }
      return showMappings (Rediff.analyze P (olds.map (·.1)).toArray (olds.map (·.2)).toArray news 0 msgs)
    | _ => return "bad-op"
  | _ => return "bad-op"

/-- `optimize <bs> <limit> <force> <partitions> <msgfile> <nOld> (path tok)* <nNew> (path tok)*` : optimized message list -/
def doOptimize (args : List String) : IO String := do
  match args with
  | bsS :: limS :: fS :: pS :: mf :: nOldS :: rest =>
    let msgs ← readMsgs mf
    let (oldFiles, rest) ← readFiles (parseNat nOldS) rest
    match rest with
    | nNewS :: rest =>
      let (newFiles, _) ← readFiles (parseNat nNewS) rest
      let P : Rediff.Params := { bs := parseNat bsS, sizeLimit := parseNat limS, forceMapAll := fS == "1", partitions := parseNat pS, scanBlock := 131072 }
      let oldPaths := (oldFiles.map (·.1)).toArray
      let oldSizes := (oldFiles.map (·.2.size)).toArray
      let news := newFiles.map fun (p, b) => (p, b.size)
      match Rediff.analyze P oldPaths oldSizes news 0 msgs with
      | .panic site => return s!"panic {site}"
      | .err _ => return "err"
      | .ok maps =>
        let oldArr := (oldFiles.map (·.2.data)).toArray
        let newArr := (newFiles.map (·.2.data)).toArray
        let differ := fun (t i : Nat) => Bsdiff.diffExec P.scanBlock P.partitions (oldArr.getD t #[]) (newArr.getD i #[])
        match Rediff.optimize differ maps 0 msgs with
        | .panic site => return s!"panic {site}"
        | .err _ => return "err"
        | .ok out =>
          -- render with the series structure: header, then ops or bsdiff header + controls + sentinel
          let rec render : List Patch.WMsg → Nat → List String → List String
            | [], _, acc => acc.reverse
            | m :: ms, st, acc =>
              -- st: 0 expect header, 1 in rsync series, 2 expect bsdiff header, 3 in controls, 4 expect sentinel
              if st == 0 then
                let h := Patch.asSyncHeader m
                render ms (if h.type == 1 then 2 else 1) (showMsgAs "H" m :: acc)
              else if st == 1 then
                render ms (if (Patch.asSyncOp m).type == 2049 then 0 else 1) (showMsgAs "O" m :: acc)
              else if st == 2 then render ms 3 (showMsgAs "B" m :: acc)
              else if st == 3 then render ms (if (Patch.asControl m).eof then 4 else 3) (showMsgAs "C" m :: acc)
              else render ms 0 (showMsgAs "O" m :: acc)
          return ";".intercalate (render out 0 [])
    | _ => return "bad-op"
  | _ => return "bad-op"

/-- `hashinfo <bs> <sizes csv> <avail>`: outcome class of ReadSignature + ComputeHashInfo when `avail` hash
    messages follow the container -/
def doHashInfo (args : List String) : IO String := do
  match args with
  | [bsS, sizesS, availS] =>
    let sizes := csvNats sizesS
    let n := Validate.readSigCount (parseNat bsS) sizes (parseNat availS)
    match Validate.hashGroups (parseNat bsS) sizes 0 n with
    | .ok _ => return s!"ok {n}"
    | .err _ => return s!"err {n}"
    | .panic p => return s!"panic {p}"
  | _ => return "bad-op"

/-- `c13 <body lengths csv>`: reader offsets after each frame -/
def doC13 (args : List String) : IO String := do
  match args with
  | [lensS] =>
    let lens := csvNats lensS
    let rec go : List Nat → Nat → List String → List String
      | [], _, acc => acc.reverse
      | l :: ls, off, acc =>
        let off' := off + (Wire.uvarint l).length + l
        go ls off' (toString off' :: acc)
    return ",".intercalate (go lens 0 [])
  | _ => return "bad-op"

/-- `c13parse <stream tok>`: parse frames; `len fnv;...` or `err` -/
def doC13Parse (args : List String) : IO String := do
  match args with
  | [tok] =>
    let s := (← readContent tok).toList
    match Wire.parseFrames (s.length + 2) s with
    | .ok bodies => return "ok " ++ ";".intercalate (bodies.map fun b => s!"{b.length} {fnvList b}")
    | .err _ => return "err"
    | .panic p => return s!"panic {p}"
  | _ => return "bad-op"

def splitPath (s : String) : FS.Path := (s.splitOn "/").filter (· != "")

/-- listing file: `d path` | `f path tok` | `l path dest` -/
def readListing (file : String) : IO (List (String × FS.Path × FS.Node)) := do
  let txt ← IO.FS.readFile file
  let mut out : Array (String × FS.Path × FS.Node) := #[]
  for l in txt.splitOn "\n" do
    match l.trimAscii.toString.splitOn " " with
    | ["d", p] => out := out.push ("d", splitPath p, .dir)
    | ["f", p, tok] => out := out.push ("f", splitPath p, .file (← readContent tok).toList)
    | ["l", p, dest] => out := out.push ("l", splitPath p, .symlink dest)
    | _ => pure ()
  return out.toList

def treeOfListing (l : List (String × FS.Path × FS.Node)) : FS.Tree := { entries := l.map fun (_, p, n) => (p, n) }

def signedOfListing (l : List (String × FS.Path × FS.Node)) : TreeValidate.Signed :=
  { dirs := l.filterMap fun (k, p, _) => if k == "d" then some p else none
    files := l.filterMap fun (_, p, n) => match n with | .file d => some (p, d) | _ => none
    symlinks := l.filterMap fun (_, p, n) => match n with | .symlink d => some (p, d) | _ => none }

def woundKey (w : Validate.Wound) : String :=
  let k := match w.kind with | .file => "F" | .closedFile => "H" | .dir => "D" | .symlink => "L"
  s!"{k} {w.index} {w.start} {w.stop}"

/-- `validate <bs> <maxSize> <signed listing> <disk listing>`: sorted real wounds or `err` -/
def doValidate (args : List String) : IO String := do
  match args with
  | [bsS, mxS, sf, df] =>
    let s := signedOfListing (← readListing sf)
    let t := treeOfListing (← readListing df)
    match TreeValidate.validate (parseNat bsS) (parseNat mxS) s t with
    | .ok ws =>
      let keys := ((Validate.realWounds ws).map woundKey).mergeSort (fun a b => decide (a ≤ b))
      return "ok " ++ ";".intercalate keys
    | .err _ => return "err"
    | .panic p => return s!"panic {p}"
  | _ => return "bad-op"

/-- `<n> (path signedTok diskTok|MISSING)*` -/
def readSkFiles : Nat → List String → IO (List (List Byte × Option (List Byte)))
  | 0, _ => return []
  | n + 1, _ :: st :: dt :: rest => do
    let s ← readContent st
    let d ← if dt == "MISSING" then pure none else do pure (some (← readContent dt).toList)
    let more ← readSkFiles n rest
    return (s.toList, d) :: more
  | _, _ => return []

/-- `patchsk <bs> <msgfile> <newsizes csv> <nOld> (path signedTok diskTok|MISSING)*` -/
def doPatchSk (args : List String) : IO String := do
  match args with
  | bsS :: mf :: newS :: nOldS :: rest =>
    let msgs ← readMsgs mf
    let fs ← readSkFiles (parseNat nOldS) rest
    let signed := (fs.map (·.1)).toArray
    let disk := (fs.map (·.2)).toArray
    let E : Patch.Env := { bs := parseNat bsS, oldSizes := signed.map (·.length), newSizes := (csvNats newS).toArray,
                           pool := SafeKeeper.skPool (parseNat bsS) signed disk, whitelist := none }
    return showOutcomeRes (Patch.patch E msgs)
  | _ => return "bad-op"

def showNode : FS.Node → String
  | .dir => "d"
  | .file d => s!"f {d.length} {fnvList d}"
  | .symlink d => s!"l {d}"

def showTree (t : FS.Tree) : List String :=
  (t.listing.map fun (p, n) => "/".intercalate p ++ " " ++ showNode n)

/-- `extract <listing>`: extract the archive of the listed tree into an empty tree; `same` or the difference -/
def doExtract (args : List String) : IO String := do
  match args with
  | [lf] =>
    let l := (← readListing lf).map fun (_, p, n) => (p, n)
    -- archive order: sorted by path (filepath.Walk)
    let sorted := (FS.Tree.mk l).listing
    match Archive.extractAll {} (Archive.archiveOf sorted) with
    | .error e => return s!"extract error {repr e}"
    | .ok t =>
      let a := showTree t
      let b := showTree (FS.Tree.mk l)
      if a == b then return "same" else return s!"differs: got {a} want {b}"
  | _ => return "bad-op"

/-- `heal <bs> <maxSize> <signed listing> <disk listing>`: tree after validate+heal -/
def doHeal (args : List String) : IO String := do
  match args with
  | [bsS, mxS, sf, df] =>
    let s := signedOfListing (← readListing sf)
    let t := treeOfListing (← readListing df)
    match Heal.validateAndHeal (parseNat bsS) (parseNat mxS) s t with
    | .ok t' => return "ok " ++ ";".intercalate (showTree t')
    | .err _ => return "err"
    | .panic p => return s!"panic {p}"
  | _ => return "bad-op"

def buildOfListing (l : List (String × FS.Path × FS.Node)) : Commit.Build :=
  { dirs := l.filterMap fun (k, p, _) => if k == "d" then some p else none
    files := l.filterMap fun (_, p, n) => match n with | .file d => some (p, d) | _ => none
    symlinks := l.filterMap fun (_, p, n) => match n with | .symlink d => some (p, d) | _ => none }

/-- `commit <bs> <msgfile> <old listing> <new listing>`: in-place application of the patch onto the old tree -/
def doCommit (args : List String) : IO String := do
  match args with
  | [bsS, mf, olf, nlf] =>
    let msgs ← readMsgs mf
    let old := buildOfListing (← readListing olf)
    let new := buildOfListing (← readListing nlf)
    let olds := (old.files.map (·.2)).toArray
    let E : Patch.Env := { bs := parseNat bsS, oldSizes := olds.map (·.length), newSizes := (new.files.map (·.2.length)).toArray,
                           pool := Patch.plainPool olds, whitelist := none }
    match Patch.patch E msgs with
    | .err _ => return "patch-err"
    | .panic p => return s!"panic {p}"
    | .ok r =>
      let w := r.calls.foldl (fun w c => match c with
        | .getWriter i => Commit.recordWriter old new w i
        | .transpose s t => Commit.recordTranspose w s t) ({} : Commit.Work)
      let ts := w.transpositions.filterMap fun (_, tg) => (old.files[tg]?).map (·.1)
      let order := ts.eraseDups
      match Commit.commit old new w order order (Commit.treeOfBuild old) with
      | .error e => return s!"err {repr e}"
      | .ok t => return "ok " ++ ";".intercalate (showTree t)
  | _ => return "bad-op"

/-- `aggregate <maxSize> <wounds: K:start:stop,...>` (K in F,H,D,L): output of AggregateWounds -/
def doAggregate (args : List String) : IO String := do
  match args with
  | [mxS, wsS] =>
    let ws : List Validate.Wound := (if wsS == "-" then [] else wsS.splitOn ",").filterMap fun t =>
      match t.splitOn ":" with
      | [k, a, b] =>
        let kind := if k == "F" then Validate.WKind.file else if k == "H" then .closedFile else if k == "D" then .dir else .symlink
        some ⟨kind, 0, parseNat a, parseNat b⟩
      | _ => none
    let out := Validate.aggregate (parseNat mxS) ws
    return ",".intercalate (out.map fun w =>
      let k := match w.kind with | .file => "F" | .closedFile => "H" | .dir => "D" | .symlink => "L"
      s!"{k}:{w.start}:{w.stop}")
  | _ => return "bad-op"

/-- `freshtree <new listing> [<transposed> | all | -]`: the tree the fresh bowl (`NewFreshBowl` … `Commit`) makes
    of the listed build from the EMPTY output tree: `Prepare`, then every file written once, in container
    order, with the listing's own content.  The optional second argument lists (comma separated) the file
    indices written through `Transpose` (`fspool.GetWriter`); the others, by default all, go through
    `GetWriter` (the `freshEntryWriter`).  Answer: `ok <tree>` as for `commit`, or `err <e>`. -/
def doFreshTree (args : List String) : IO String := do
  let run (lf : String) (tr : String) : IO String := do
    let new := buildOfListing (← readListing lf)
    let outs := (List.range new.files.length).zip (new.files.map (·.2))
    let transposed : List Nat := if tr == "all" then List.range new.files.length else csvNats tr
    match FreshBowl.freshApply new outs {} (fun i => if transposed.contains i then .transpose else .writer) with
    | .error e => return s!"err {repr e}"
    | .ok t => return "ok " ++ ";".intercalate (showTree t)
  match args with
  | [lf] => run lf "-"
  | [lf, tr] => run lf tr
  | _ => return "bad-op"

def dispatch (line : String) : IO String := do
  match line.trimAscii.toString.splitOn " " with
  | "c11" :: args => doC11 args
  | "c14" :: args => doC14 args
  | "c18" :: args => doC18 args
  | "c12" :: args => doC12 args
  | "diffbuild" :: args => doDiffBuild args
  | "patch" :: args => doPatch args
  | "ckpts" :: args => doCkpts args
  | "hashinfo" :: args => doHashInfo args
  | "c13" :: args => doC13 args
  | "validate" :: args => doValidate args
  | "aggregate" :: args => doAggregate args
  | "patchsk" :: args => doPatchSk args
  | "extract" :: args => doExtract args
  | "heal" :: args => doHeal args
  | "commit" :: args => doCommit args
  | "c13parse" :: args => doC13Parse args
  | "protodec" :: args => doProtoDec args
  | "protoenc" :: args => doProtoEnc args
  | "analyze" :: args => doAnalyze args
  | "optimize" :: args => doOptimize args
  | "lru" :: args => doLru args
  | "freshtree" :: args => doFreshTree args
  | ["ping"] => return "pong"
  | _ => return "bad-op"

partial def loop (hin : IO.FS.Stream) (hout : IO.FS.Stream) : IO Unit := do
  let line ← hin.getLine
  if line.isEmpty then return ()
  let out ← dispatch line
  hout.putStrLn out
  hout.flush
  loop hin hout

def main : IO Unit := do
  loop (← IO.getStdin) (← IO.getStdout)
