/-
  wvmodel: line-protocol driver over the executable model.  One request per line on stdin,
  one canonical answer per line on stdout.  Core Lean only.
-/
import Wharf.Model.Basic
import Wharf.Model.Util
import Wharf.Model.Rsync
import Wharf.Model.Overlay
import Wharf.Model.Validate
import Wharf.Model.Bsdiff
import Wharf.Model.Lru
import Wharf.Model.Patch

open Wharf Wharf.Util

def showOp (src : Content) : Rsync.Op → String
  | .range f i s => s!"R {f} {i} {s}"
  | .data st len => s!"D {len} {fnvContent src st len}"

/-- `c11 <bs> <maxDataOp> <pref|-1> <nold> <old>... <new>` -/
def doC11 (args : List String) : IO String := do
  match args with
  | bs :: mx :: pref :: nold :: rest =>
    let n := parseNat nold
    let oldToks := rest.take n
    let newTok := rest.getD n "x:"
    let olds ← oldToks.mapM readContent
    let new ← readContent newTok
    let src := Content.ofByteArray new
    let prefI := parseInt pref
    let pref : Option Nat := if prefI < 0 then none else some prefI.toNat
    let P : Rsync.Params := { bs := parseNat bs, maxDataOp := parseNat mx }
    let ops := Rsync.computeDiff P (olds.map Content.ofByteArray) src pref
    return ";".intercalate (ops.map (showOp src))
  | _ => return "bad-op"

def showOOp : Overlay.OOp → String
  | .skip n => s!"S {n}"
  | .fresh d => s!"F {d.length} {fnvList d}"
  | .done => "E"

def parseEvents (s : String) : List Overlay.Ev :=
  (s.splitOn ",").filterMap fun t =>
    if t.startsWith "w" then some (.write (parseNat (t.drop 1).toString))
    else if t == "f" || t == "x" then some .flush
    else none

/-- `c14 <bufSize> <threshold> <old> <new> <events>` -/
def doC14 (args : List String) : IO String := do
  match args with
  | [bufS, thr, oldT, newT, evs] =>
    let old := (← readContent oldT).toList
    let new := (← readContent newT).toList
    let P : Overlay.Params := { bufSize := parseNat bufS, threshold := parseNat thr }
    let ws := Overlay.bufioWindows P.bufSize (parseEvents evs) 0
    let ops := Overlay.writeWindows P old new 0 ws
    let res := Overlay.patch (ops ++ [.done]) old
    return ";".intercalate (ops.map showOOp) ++ s!" | {res.length} {fnvList res}"
  | [bufS, thr, oldT, newT] =>
    -- no events: empty new content
    let old := (← readContent oldT).toList
    let new := (← readContent newT).toList
    let P : Overlay.Params := { bufSize := parseNat bufS, threshold := parseNat thr }
    let ops := Overlay.writeWindows P old new 0 []
    let res := Overlay.patch (ops ++ [.done]) old
    return ";".intercalate (ops.map showOOp) ++ s!" | {res.length} {fnvList res}"
  | _ => return "bad-op"

def showWound (w : Validate.Wound) : String :=
  let k := match w.kind with
    | .file => "W" | .closedFile => "H" | .dir => "D" | .symlink => "L"
  s!"{k} {w.start} {w.stop}"

def splitAtCuts : List Nat → List Byte → List (List Byte)
  | [], _ => []
  | n :: ns, l => l.take n :: splitAtCuts ns (l.drop n)

/-- `c18 <e|w> <bs> <S> <D> <cuts|->` : write D in the given slices, stop at the first failing call, close. -/
def doC18 (args : List String) : IO String := do
  match args with
  | [mode, bsS, sT, dT, cutS] =>
    let S := (← readContent sT).toList
    let D := (← readContent dT).toList
    let bs := parseNat bsS
    let wound := mode == "w"
    let cuts := if cutS == "-" then [] else (cutS.splitOn ",").map parseNat
    let slices := splitAtCuts cuts D
    let mut d : Validate.Drip := {}
    let mut okCalls := 0
    for sl in slices do
      if d.err then break
      d := Validate.dripWrite wound bs S 0 d sl
      if !d.err then okCalls := okCalls + 1
    let failedBefore := d.err
    d := Validate.dripClose wound bs S 0 d
    let closeS := if d.err then "err" else "ok"
    let _ := failedBefore
    return s!"calls={okCalls}/{slices.length} close={closeS} inner={d.inner.length} {fnvList d.inner} wounds=" ++
      ";".intercalate (d.wounds.map showWound)
  | _ => return "bad-op"

def showCtrl : Bsdiff.Ctrl → String
  | .eof => "EOF"
  | .op a c s => s!"A {a.length} {fnvList a} C {c.length} {fnvList c} S {s}"

/-- `c12 <partitions> <old> <new>` -/
def doC12 (args : List String) : IO String := do
  match args with
  | [pS, oT, nT] =>
    let old := (← readContent oT).data
    let new := (← readContent nT).data
    match Bsdiff.diffExec 131072 (parseNat pS) old new with
    | .panic s => return s!"PANIC {s}"
    | .err e => return s!"ERR {e}"
    | .ok cs =>
      let res := match Bsdiff.applySeries old cs ⟨0, []⟩ with
        | .ok (st, _) => s!"{st.out.length} {fnvList st.out}"
        | .err e => s!"APPLY-ERR {e}"
        | .panic p => s!"APPLY-PANIC {p}"
      return " / ".intercalate (cs.map showCtrl) ++ " || " ++ res
  | _ => return "bad-op"

def parseLruOps (s : String) : List Lru.Op :=
  (s.splitOn ",").filterMap fun t =>
    if t.startsWith "s" then some (.seek (parseInt (t.drop 1).toString))
    else if t.startsWith "r" then some (.read (parseNat (t.drop 1).toString))
    else none

/-- `lru <chunk> <cap> <file> <ops>` -/
def doLru (args : List String) : IO String := do
  match args with
  | [cS, capS, fT, opsS] =>
    let file := (← readContent fT).toList
    match Lru.run (Lru.new (parseNat cS) (parseNat capS) file) (parseLruOps opsS) with
    | .panic s => return s!"PANIC {s}"
    | .err e => return s!"ERR {e}"
    | .ok (lf, outs) =>
      let strs := (outs.zip (parseLruOps opsS)).map fun (o, op) =>
        match o, op with
        | none, _ => "-"
        | some _, .seek _ => "ok"
        | some b, .read _ => s!"{b.length} {fnvList b}"
      return ";".intercalate strs ++ s!" hits={lf.hits} misses={lf.misses}"
  | _ => return "bad-op"

/-- read `<n> (path tok)*` from the argument list; returns the files and the remaining arguments -/
def readFiles : Nat → List String → IO (List (String × ByteArray) × List String)
  | 0, rest => return ([], rest)
  | n + 1, path :: tok :: rest => do
    let b ← readContent tok
    let (fs, rest') ← readFiles n rest
    return ((path, b) :: fs, rest')
  | _, rest => return ([], rest)

def fnvOps (bs : Nat) (olds : Array Content) (src : Content) (ops : List Rsync.Op) : Nat × UInt64 := Id.run do
  let mut h := fnvOffset
  let mut n := 0
  for op in ops do
    match op with
    | .data st len =>
      for k in [0:len] do
        h := fnvStep h (src.get (st + k))
      n := n + len
    | .range f i sp =>
      match olds[f]? with
      | none => pure ()
      | some old =>
        let opSize := (sp - 1) * bs + Rsync.blockLen bs old.size (i + sp - 1)
        let len := min opSize (old.size - bs * i)
        for k in [0:len] do
          h := fnvStep h (old.get (bs * i + k))
        n := n + len
  return (n, h)

/-- `diffbuild <bs> <maxDataOp> <nOld> (path tok)* <nNew> (path tok)*`
    answers: `<messages> | <per new file: replayed len fnv> | <per new file: blocks weak:len,...> | fresh reused` -/
def doDiffBuild (args : List String) : IO String := do
  match args with
  | bsS :: mxS :: nOldS :: rest =>
    let (oldFiles, rest) ← readFiles (parseNat nOldS) rest
    match rest with
    | nNewS :: rest =>
      let (newFiles, _) ← readFiles (parseNat nNewS) rest
      let P : Rsync.Params := { bs := parseNat bsS, maxDataOp := parseNat mxS }
      let olds := oldFiles.map fun (p, b) => (p, Content.ofByteArray b)
      let news := newFiles.map fun (p, b) => (p, Content.ofByteArray b)
      let oldArr := (olds.map (·.2)).toArray
      let series := Patch.diffAll P olds 0 news
      let msgs := series.map fun (i, src, ops) =>
        ";".intercalate ((s!"H 0 {i}" :: ops.map (showOp src)) ++ ["E"])
      let replays := series.map fun (_, src, ops) =>
        let (n, h) := fnvOps P.bs oldArr src ops
        s!"{n} {h}"
      let sigs := news.map fun (_, c) =>
        ",".intercalate ((Rsync.fileEntries P.bs 0 c).map fun e =>
          let len := if c.size = 0 then 0 else Rsync.blockLen P.bs c.size e.index
          s!"{e.weak.toNat}:{len}")
      let fresh := series.foldl (fun acc (_, _, ops) => acc + (ops.map Rsync.freshOf).sum) 0
      let reused := series.foldl (fun acc (_, _, ops) => acc + (ops.map (Rsync.reusedOf P.bs oldArr)).sum) 0
      return ";".intercalate msgs ++ " | " ++ ";".intercalate replays ++ " | " ++ ";".intercalate sigs ++ s!" | {fresh} {reused}"
    | _ => return "bad-op"
  | _ => return "bad-op"

def dispatch (line : String) : IO String := do
  match line.trimAscii.toString.splitOn " " with
  | "c11" :: args => doC11 args
  | "c14" :: args => doC14 args
  | "c18" :: args => doC18 args
  | "c12" :: args => doC12 args
  | "diffbuild" :: args => doDiffBuild args
  | "lru" :: args => doLru args
  | ["ping"] => return "pong"
  | _ => return "bad-op"

partial def loop (hin : IO.FS.Stream) (hout : IO.FS.Stream) : IO Unit := do
  let line ← hin.getLine
  if line.isEmpty then return ()
  let out ← dispatch line
  hout.putStrLn out
  hout.flush
  loop hin hout

def main : IO Unit := do
  loop (← IO.getStdin) (← IO.getStdout)
