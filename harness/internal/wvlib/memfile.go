package wvlib

import (
	"fmt"
	"io"
)

// MemFile is an in-memory file with os.File-like Write/Seek/Truncate semantics (sparse writes zero-fill).
type MemFile struct {
	Data []byte
	Pos  int64
}

func (m *MemFile) Write(p []byte) (int, error) {
	end := m.Pos + int64(len(p))
	if end > int64(len(m.Data)) {
		nd := make([]byte, end)
		copy(nd, m.Data)
		m.Data = nd
	}
	copy(m.Data[m.Pos:], p)
	m.Pos = end
	return len(p), nil
}

func (m *MemFile) Read(p []byte) (int, error) {
	if m.Pos >= int64(len(m.Data)) {
		return 0, io.EOF
	}
	n := copy(p, m.Data[m.Pos:])
	m.Pos += int64(n)
	return n, nil
}

func (m *MemFile) Seek(off int64, whence int) (int64, error) {
	var np int64
	switch whence {
	case io.SeekStart:
		np = off
	case io.SeekCurrent:
		np = m.Pos + off
	case io.SeekEnd:
		np = int64(len(m.Data)) + off
	}
	if np < 0 {
		return m.Pos, fmt.Errorf("memfile: negative seek")
	}
	m.Pos = np
	return np, nil
}

func (m *MemFile) Truncate(n int64) {
	if n <= int64(len(m.Data)) {
		m.Data = m.Data[:n]
		return
	}
	nd := make([]byte, n)
	copy(nd, m.Data)
	m.Data = nd
}
