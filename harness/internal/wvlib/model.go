package wvlib

import (
	"bufio"
	"encoding/hex"
	"fmt"
	"io"
	"os"
	"os/exec"
	"path/filepath"
	"strings"
	"sync"
	"syscall"
)

// Model is one running instance of the Lean model driver (wvmodel), spoken to line by line.
type Model struct {
	cmd *exec.Cmd
	in  io.WriteCloser
	out *bufio.Reader
	mu  sync.Mutex
	// Lines counts the requests answered.
	Lines int64
}

// ModelPath locates the compiled driver.
func ModelPath() string {
	if p := os.Getenv("WV_MODEL"); p != "" {
		return p
	}
	return filepath.Join(VerifRoot(), "lean", ".lake", "build", "bin", "wvmodel")
}

// VerifRoot is /verif unless overridden (vp run snapshots live elsewhere).
func VerifRoot() string {
	if p := os.Getenv("WV_ROOT"); p != "" {
		return p
	}
	return "/verif"
}

func StartModel() (*Model, error) {
	cmd := exec.Command(ModelPath())
	// never outlive the harness (a killed run must not leave spinning children behind)
	cmd.SysProcAttr = &syscall.SysProcAttr{Pdeathsig: syscall.SIGKILL}
	in, err := cmd.StdinPipe()
	if err != nil {
		return nil, err
	}
	out, err := cmd.StdoutPipe()
	if err != nil {
		return nil, err
	}
	cmd.Stderr = os.Stderr
	if err := cmd.Start(); err != nil {
		return nil, err
	}
	m := &Model{cmd: cmd, in: in, out: bufio.NewReaderSize(out, 1<<20)}
	if r, err := m.Ask("ping"); err != nil || r != "pong" {
		return nil, fmt.Errorf("model driver does not answer ping: %q %v", r, err)
	}
	return m, nil
}

// Ask sends one request line and returns the answer line.
func (m *Model) Ask(line string) (string, error) {
	m.mu.Lock()
	defer m.mu.Unlock()
	if _, err := io.WriteString(m.in, line+"\n"); err != nil {
		return "", err
	}
	ans, err := m.out.ReadString('\n')
	if err != nil {
		return "", fmt.Errorf("model driver died on request %q: %v", trunc(line, 200), err)
	}
	m.Lines++
	return strings.TrimRight(ans, "\n"), nil
}

func (m *Model) Close() {
	m.in.Close()
	m.cmd.Wait()
}

func trunc(s string, n int) string {
	if len(s) > n {
		return s[:n] + "..."
	}
	return s
}

// Scratch is a per-run temp directory (removed by Cleanup) used to hand large contents to the model.
type Scratch struct {
	Dir string
	n   int
	mu  sync.Mutex
}

func NewScratch() *Scratch {
	d, err := os.MkdirTemp("", "wv-")
	if err != nil {
		panic(err)
	}
	return &Scratch{Dir: d}
}

func (s *Scratch) Cleanup() { os.RemoveAll(s.Dir) }

// Sub creates a fresh empty subdirectory.
func (s *Scratch) Sub(prefix string) string {
	s.mu.Lock()
	s.n++
	n := s.n
	s.mu.Unlock()
	d := filepath.Join(s.Dir, fmt.Sprintf("%s%d", prefix, n))
	if err := os.MkdirAll(d, 0o755); err != nil {
		panic(err)
	}
	return d
}

// Tok renders a content as a protocol token: inline hex when small, a file otherwise.
// The returned cleanup removes the file (if any).
func (s *Scratch) Tok(b []byte) (string, func()) {
	if len(b) <= 256 {
		return "x:" + hex.EncodeToString(b), func() {}
	}
	s.mu.Lock()
	s.n++
	n := s.n
	s.mu.Unlock()
	p := filepath.Join(s.Dir, fmt.Sprintf("c%d.bin", n))
	if err := os.WriteFile(p, b, 0o644); err != nil {
		panic(err)
	}
	return "f:" + p, func() { os.Remove(p) }
}
