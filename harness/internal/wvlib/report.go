package wvlib

import (
	"encoding/json"
	"fmt"
	"os"
	"sort"
	"sync"
	"time"
)

// Violation is an oracle failure on the implementation: a concrete failing case.
type Violation struct {
	Class  string      `json:"class"` // stable key computed by the oracle (matched against known_findings.json)
	Detail string      `json:"detail"`
	Case   interface{} `json:"case"`
}

// Disagreement is a case on which model and implementation differ.
type Disagreement struct {
	Case   interface{} `json:"case"`
	Impl   string      `json:"impl"`
	Model  string      `json:"model"`
	Oracle string      `json:"oracle"` // "pass" when the property-level oracle accepted the implementation's behaviour
}

// Report is what a `wv <ID>` run hands back to the check script.
type Report struct {
	Property      string                 `json:"property"`
	Tier          string                 `json:"tier"`
	Seed          uint64                 `json:"seed"`
	Evaluations   int64                  `json:"evaluations"`
	Nontrivial    int64                  `json:"distinct_nontrivial"`
	Rule          string                 `json:"rule"`
	ModelLines    int64                  `json:"traces_validated_against_impl"`
	Exhaustive    bool                   `json:"exhaustive"`
	Samples       []interface{}          `json:"samples"`
	Distribution  map[string]int64       `json:"distribution"`
	Violations    []Violation            `json:"violations"`
	Disagreements []Disagreement         `json:"disagreements"`
	Notes         []string               `json:"notes"`
	WallS         float64                `json:"wall_s"`
	Extra         map[string]interface{} `json:"extra,omitempty"`

	mu       sync.Mutex
	distinct map[uint64]struct{}
	start    time.Time
}

func NewReport(prop, tier string, seed uint64) *Report {
	return &Report{Property: prop, Tier: tier, Seed: seed, Distribution: map[string]int64{},
		distinct: map[uint64]struct{}{}, start: time.Now(), Extra: map[string]interface{}{}}
}

// Count bumps a distribution counter.
func (r *Report) Count(key string, n int64) {
	r.mu.Lock()
	r.Distribution[key] += n
	r.mu.Unlock()
}

// Eval records one evaluated case; key identifies it for distinctness, nontrivial by the property's rule.
func (r *Report) Eval(key uint64, nontrivial bool) {
	r.mu.Lock()
	r.Evaluations++
	if nontrivial {
		if _, ok := r.distinct[key]; !ok {
			r.distinct[key] = struct{}{}
			r.Nontrivial++
		}
	}
	r.mu.Unlock()
}

// EvalBulk records n evaluated distinct cases (used by exhaustive enumerations where distinctness is by construction).
func (r *Report) EvalBulk(n, nontrivial int64) {
	r.mu.Lock()
	r.Evaluations += n
	r.Nontrivial += nontrivial
	r.mu.Unlock()
}

func (r *Report) Sample(c interface{}) {
	r.mu.Lock()
	if len(r.Samples) < 6 {
		r.Samples = append(r.Samples, c)
	}
	r.mu.Unlock()
}

func (r *Report) Violate(class, detail string, c interface{}) {
	r.mu.Lock()
	defer r.mu.Unlock()
	// keep at most 3 cases per class (the first are usually the smallest)
	n := 0
	for _, v := range r.Violations {
		if v.Class == class {
			n++
		}
	}
	r.Distribution["violation:"+class]++
	if n < 3 {
		r.Violations = append(r.Violations, Violation{Class: class, Detail: detail, Case: c})
	}
}

func (r *Report) Disagree(c interface{}, impl, model, oracle string) {
	r.mu.Lock()
	defer r.mu.Unlock()
	r.Distribution["disagreement"]++
	if len(r.Disagreements) < 10 {
		r.Disagreements = append(r.Disagreements, Disagreement{Case: c, Impl: trunc(impl, 2000), Model: trunc(model, 2000), Oracle: oracle})
	}
}

func (r *Report) Note(format string, a ...interface{}) {
	r.mu.Lock()
	r.Notes = append(r.Notes, fmt.Sprintf(format, a...))
	r.mu.Unlock()
}

// Write stores the report as JSON.
func (r *Report) Write(path string) error {
	r.WallS = time.Since(r.start).Seconds()
	sort.Slice(r.Violations, func(i, j int) bool { return r.Violations[i].Class < r.Violations[j].Class })
	b, err := json.MarshalIndent(r, "", " ")
	if err != nil {
		return err
	}
	return os.WriteFile(path, b, 0o644)
}

// ParallelDo runs f(i) for i in [0,n) on `workers` goroutines.
func ParallelDo(n, workers int, f func(i int)) {
	if workers < 1 {
		workers = 1
	}
	var wg sync.WaitGroup
	ch := make(chan int, workers)
	for w := 0; w < workers; w++ {
		wg.Add(1)
		go func() {
			defer wg.Done()
			for i := range ch {
				f(i)
			}
		}()
	}
	for i := 0; i < n; i++ {
		ch <- i
	}
	close(ch)
	wg.Wait()
}
