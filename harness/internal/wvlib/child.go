package wvlib

import (
	"bufio"
	"bytes"
	"fmt"
	"io"
	"os"
	"os/exec"
	"strconv"
	"strings"
	"sync"
	"sync/atomic"
	"syscall"
	"time"
)

// Child runs cases in a separate process so that a panic in a goroutine the harness did not start
// (which cannot be recovered) or a hang only loses one case.  Protocol: one request line, one answer line.
type Child struct {
	prefix []string // command prefix (e.g. taskset -c 0)
	prop   string
	cmd    *exec.Cmd
	in     io.WriteCloser
	out    *bufio.Reader
	stderr *bytes.Buffer
	mu     sync.Mutex
}

func StartChild(prop string) (*Child, error) {
	c := &Child{prop: prop}
	return c, c.start()
}

// StartChildWith runs the child under a command prefix such as ["taskset", "-c", "0"].
func StartChildWith(prefix []string, prop string) (*Child, error) {
	c := &Child{prop: prop, prefix: prefix}
	return c, c.start()
}

func (c *Child) start() error {
	args := append(append([]string(nil), c.prefix...), os.Args[0], "child", c.prop)
	c.cmd = exec.Command(args[0], args[1:]...)
	// never outlive the harness (a killed run must not leave spinning children behind)
	c.cmd.SysProcAttr = &syscall.SysProcAttr{Pdeathsig: syscall.SIGKILL}
	c.cmd.Env = append(os.Environ(), "GOTRACEBACK=single", "GOMEMLIMIT=6GiB")
	in, err := c.cmd.StdinPipe()
	if err != nil {
		return err
	}
	out, err := c.cmd.StdoutPipe()
	if err != nil {
		return err
	}
	c.stderr = &bytes.Buffer{}
	c.cmd.Stderr = c.stderr
	c.in, c.out = in, bufio.NewReaderSize(out, 1<<20)
	return c.cmd.Start()
}

// Ask sends one request; crashed=true when the child died or timed out on it (it is restarted).
func (c *Child) Ask(line string, timeout time.Duration) (ans string, crashed bool, diag string) {
	c.mu.Lock()
	defer c.mu.Unlock()
	type res struct {
		s   string
		err error
	}
	ch := make(chan res, 1)
	go func() {
		if _, err := io.WriteString(c.in, line+"\n"); err != nil {
			ch <- res{"", err}
			return
		}
		s, err := c.out.ReadString('\n')
		ch <- res{s, err}
	}()
	select {
	case r := <-ch:
		if r.err != nil {
			c.cmd.Wait()
			diag = tail(c.stderr.String(), 1500)
			c.start()
			return "", true, diag
		}
		return strings.TrimRight(r.s, "\n"), false, ""
	case <-time.After(timeout):
		c.cmd.Process.Kill()
		c.cmd.Wait()
		diag = fmt.Sprintf("no answer within %v (hang)", timeout)
		c.start()
		return "", true, diag
	}
}

func (c *Child) Close() {
	c.in.Close()
	done := make(chan struct{})
	go func() { c.cmd.Wait(); close(done) }()
	select {
	case <-done:
	case <-time.After(5 * time.Second):
		c.cmd.Process.Kill()
	}
}

func tail(s string, n int) string {
	if len(s) > n {
		return "..." + s[len(s)-n:]
	}
	return s
}

// ChildLoop is the child side: answer each request line with handler's one-line result.
func ChildLoop(handler func(line string) string) {
	in := bufio.NewReaderSize(os.Stdin, 1<<20)
	out := bufio.NewWriter(os.Stdout)
	for {
		line, err := in.ReadString('\n')
		if line == "" && err != nil {
			return
		}
		ans := handler(strings.TrimRight(line, "\n"))
		out.WriteString(strings.ReplaceAll(ans, "\n", " | ") + "\n")
		out.Flush()
		if err != nil {
			return
		}
	}
}

var hangsSeen int64

// Watchdog returns how long to wait for an operation that normally takes well under a second before calling it
// a hang. The base is doubled (WV_TIMEOUT_FACTOR overrides the factor) so that a heavily loaded machine does
// not produce false hangs; once three hangs have been reported in this run, further waits are cut to 8 s so
// that a real deadlock does not make the run take hours.
func Watchdog(base time.Duration) time.Duration {
	if atomic.LoadInt64(&hangsSeen) >= 3 {
		return 8 * time.Second
	}
	f := 2.0
	if s := os.Getenv("WV_TIMEOUT_FACTOR"); s != "" {
		if v, err := strconv.ParseFloat(s, 64); err == nil && v > 0 {
			f = v
		}
	}
	return time.Duration(float64(base) * f)
}

// NoteHang records that a watchdog fired.
func NoteHang() { atomic.AddInt64(&hangsSeen, 1) }
