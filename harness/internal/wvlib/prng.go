// Package wvlib holds the shared machinery of the correspondence harness: PRNG, content
// generators, the line-protocol client for the Lean model driver, evidence and violation output.
package wvlib

// Rng is xorshift64*; every random choice of a run derives from one seed.
type Rng struct{ s uint64 }

func NewRng(seed uint64) *Rng {
	if seed == 0 {
		seed = 0x9E3779B97F4A7C15
	}
	r := &Rng{s: seed}
	for i := 0; i < 4; i++ {
		r.Next()
	}
	return r
}

func (r *Rng) Next() uint64 {
	x := r.s
	x ^= x >> 12
	x ^= x << 25
	x ^= x >> 27
	r.s = x
	return x * 2685821657736338717
}

// Intn returns a value in [0,n).
func (r *Rng) Intn(n int) int {
	if n <= 0 {
		return 0
	}
	return int(r.Next() % uint64(n))
}

func (r *Rng) Bool() bool { return r.Next()&1 == 1 }

// Pick returns one of the given ints.
func (r *Rng) Pick(xs ...int) int { return xs[r.Intn(len(xs))] }

// Fork derives an independent generator (for sharding) from this one and a label.
func (r *Rng) Fork(label uint64) *Rng {
	return NewRng(r.Next() ^ (label * 0xD6E8FEB86659FD93))
}

// Bytes fills a fresh slice with pseudo-random bytes.
func (r *Rng) Bytes(n int) []byte {
	b := make([]byte, n)
	i := 0
	for i+8 <= n {
		x := r.Next()
		b[i] = byte(x)
		b[i+1] = byte(x >> 8)
		b[i+2] = byte(x >> 16)
		b[i+3] = byte(x >> 24)
		b[i+4] = byte(x >> 32)
		b[i+5] = byte(x >> 40)
		b[i+6] = byte(x >> 48)
		b[i+7] = byte(x >> 56)
		i += 8
	}
	if i < n {
		x := r.Next()
		for ; i < n; i++ {
			b[i] = byte(x)
			x >>= 8
		}
	}
	return b
}

// SmallAlpha returns n bytes over an alphabet of k symbols (low entropy: many accidental matches).
func (r *Rng) SmallAlpha(n, k int) []byte {
	b := make([]byte, n)
	for i := range b {
		b[i] = byte(r.Intn(k))
	}
	return b
}

// Fnv is FNV-1a 64, the summary both sides of the correspondence print for byte strings.
func Fnv(b []byte) uint64 {
	h := uint64(14695981039346656037)
	for _, c := range b {
		h ^= uint64(c)
		h *= 1099511628211
	}
	return h
}
