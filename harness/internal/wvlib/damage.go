package wvlib

import (
	"fmt"
	"strings"
)

// DamageOpts selects which damage kinds may be applied.
type DamageOpts struct {
	KindSwaps   bool // entries replaced by another kind (incl. swaps that hide whole subtrees)
	SymlinkDirs bool // a directory replaced by a symlink (to a moved copy or elsewhere)
	MaxOps      int
}

// Damage applies a random damage sequence to a copy of b and describes it.
func Damage(r *Rng, b *Build, o DamageOpts) (*Build, []string) {
	d := b.Clone()
	var desc []string
	n := 1 + r.Intn(3)
	if o.MaxOps > 0 {
		n = 1 + r.Intn(o.MaxOps)
	}
	for k := 0; k < n; k++ {
		if len(d.Entries) == 0 {
			break
		}
		files := d.Files()
		choice := r.Intn(12)
		if !o.KindSwaps && choice >= 9 {
			choice = r.Intn(9)
		}
		switch choice {
		case 0, 1, 2: // bit flip
			if len(files) == 0 {
				continue
			}
			f := d.Find(files[r.Intn(len(files))].Path)
			if len(f.Data) == 0 {
				continue
			}
			pos := r.Intn(len(f.Data))
			switch r.Intn(4) {
			case 0:
				pos = (pos / BS) * BS
			case 1:
				pos = (pos/BS)*BS + BS - 1
				if pos >= len(f.Data) {
					pos = len(f.Data) - 1
				}
			case 2:
				pos = len(f.Data) - 1
			}
			if r.Intn(3) == 0 {
				// damage that leaves the block's WEAK hash as it was (+1, -2, +1 on three consecutive bytes of one
				// block: both running sums are unchanged), so only the strong hash tells
				if q, ok := WeakPreservingTweak(f.Data, pos); ok {
					desc = append(desc, fmt.Sprintf("flip %s@%d (weak hash preserved)", f.Path, q))
					continue
				}
			}
			f.Data[pos] ^= byte(1 + r.Intn(255))
			desc = append(desc, fmt.Sprintf("flip %s@%d", f.Path, pos))
		case 3: // truncate
			if len(files) == 0 {
				continue
			}
			f := d.Find(files[r.Intn(len(files))].Path)
			if len(f.Data) == 0 {
				continue
			}
			to := r.Intn(len(f.Data))
			if r.Bool() {
				to = (to / BS) * BS // exactly at a block boundary
			}
			f.Data = f.Data[:to]
			desc = append(desc, fmt.Sprintf("truncate %s->%d", f.Path, to))
		case 4: // extend
			if len(files) == 0 {
				continue
			}
			f := d.Find(files[r.Intn(len(files))].Path)
			room := BS - len(f.Data)%BS
			n := r.Pick(1, room-1, room, room+1, BS, 2*BS+3, 1+r.Intn(3*BS))
			if n < 1 {
				n = 1
			}
			if len(f.Data) > 0 && r.Bool() {
				// also damage the signed range, in its last block(s): the "too long" wound and the block wounds
				// of the trailing run then reach the consumers in an order of their own
				lastStart := ((len(f.Data) - 1) / BS) * BS
				pos := lastStart + r.Intn(len(f.Data)-lastStart)
				if r.Intn(3) == 0 && lastStart >= BS {
					pos = lastStart - 1 - r.Intn(BS)
					f.Data[lastStart] ^= 0x55
				}
				f.Data[pos] ^= byte(1 + r.Intn(255))
				desc = append(desc, fmt.Sprintf("flip %s@%d", f.Path, pos))
			}
			f.Data = append(f.Data, r.Bytes(n)...)
			desc = append(desc, fmt.Sprintf("extend %s+%d", f.Path, n))
		case 5: // emptied
			if len(files) == 0 {
				continue
			}
			f := d.Find(files[r.Intn(len(files))].Path)
			f.Data = nil
			desc = append(desc, "empty "+f.Path)
		case 6: // deleted entry (file, symlink, or whole subtree)
			e := d.Entries[r.Intn(len(d.Entries))]
			d.Remove(e.Path)
			desc = append(desc, fmt.Sprintf("delete %c %s", e.Kind, e.Path))
		case 7: // content where an empty file is expected
			for _, f := range files {
				if len(f.Data) == 0 {
					d.Find(f.Path).Data = r.Bytes(1 + r.Intn(100))
					desc = append(desc, "fill-empty "+f.Path)
					break
				}
			}
		case 8: // retarget a symlink
			for i := range d.Entries {
				if d.Entries[i].Kind == 'l' {
					d.Entries[i].Dest += ".other"
					desc = append(desc, "retarget "+d.Entries[i].Path)
					break
				}
			}
		case 9: // file -> dir (empty or with junk inside) / file -> symlink
			if len(files) == 0 {
				continue
			}
			p := files[r.Intn(len(files))].Path
			d.Remove(p)
			if r.Bool() {
				d.Entries = append(d.Entries, BEntry{Path: p, Kind: 'd'})
				if r.Bool() {
					d.Entries = append(d.Entries, BEntry{Path: p + "/junk.bin", Kind: 'f', Data: r.Bytes(10)})
				}
				desc = append(desc, "file->dir "+p)
			} else {
				d.Entries = append(d.Entries, BEntry{Path: p, Kind: 'l', Dest: "nowhere"})
				desc = append(desc, "file->symlink "+p)
			}
		case 10: // dir -> file (hides the subtree) / dir -> symlink
			var dirs []string
			for _, e := range d.Entries {
				if e.Kind == 'd' {
					dirs = append(dirs, e.Path)
				}
			}
			if len(dirs) == 0 {
				continue
			}
			p := dirs[r.Intn(len(dirs))]
			if o.SymlinkDirs && r.Intn(3) == 0 {
				// move the directory aside and leave a symlink to the moved copy
				moved := p + ".moved"
				for i := range d.Entries {
					if d.Entries[i].Path == p || strings.HasPrefix(d.Entries[i].Path, p+"/") {
						d.Entries[i].Path = moved + d.Entries[i].Path[len(p):]
					}
				}
				base := moved
				if i := strings.LastIndex(moved, "/"); i >= 0 {
					base = moved[i+1:]
				}
				d.Entries = append(d.Entries, BEntry{Path: p, Kind: 'l', Dest: base})
				desc = append(desc, "dir->symlink-to-moved-copy "+p)
			} else if r.Intn(4) == 0 {
				// a symlink that leads back to itself: everything below fails to resolve (ELOOP)
				d.Remove(p)
				base := p
				if i := strings.LastIndex(p, "/"); i >= 0 {
					base = p[i+1:]
				}
				d.Entries = append(d.Entries, BEntry{Path: p, Kind: 'l', Dest: base})
				desc = append(desc, "dir->symlink-loop "+p)
			} else {
				d.Remove(p)
				d.Entries = append(d.Entries, BEntry{Path: p, Kind: 'f', Data: r.Bytes(r.Intn(50))})
				desc = append(desc, "dir->file "+p)
			}
		default: // symlink -> file / dir
			for i := range d.Entries {
				if d.Entries[i].Kind == 'l' {
					p := d.Entries[i].Path
					d.Remove(p)
					if r.Bool() {
						d.Entries = append(d.Entries, BEntry{Path: p, Kind: 'f', Data: r.Bytes(5)})
						desc = append(desc, "symlink->file "+p)
					} else {
						d.Entries = append(d.Entries, BEntry{Path: p, Kind: 'd'})
						d.Entries = append(d.Entries, BEntry{Path: p + "/in.bin", Kind: 'f', Data: r.Bytes(5)})
						desc = append(desc, "symlink->dir "+p)
					}
					break
				}
			}
		}
	}
	return d, desc
}

// GenBuild produces a single build with nested and empty dirs, empty files and symlinks.
func GenBuild(r *Rng, o PairOpts) *Build {
	_, nw, _ := GenPair(r, o)
	used := map[string]bool{}
	for _, e := range nw.Entries {
		used[e.Path] = true
	}
	add := func(e BEntry) {
		if !used[e.Path] {
			used[e.Path] = true
			nw.Entries = append(nw.Entries, e)
		}
	}
	add(BEntry{Path: "top/mid/leaf/deep.bin", Kind: 'f', Data: r.Bytes(r.Pick(0, 10, BS+5))})
	add(BEntry{Path: "top/mid/other.bin", Kind: 'f', Data: r.Bytes(r.Pick(1, 2*BS, BS))})
	add(BEntry{Path: "top/emptydir", Kind: 'd'})
	add(BEntry{Path: "zero.bin", Kind: 'f'})
	if o.Symlinks {
		add(BEntry{Path: "top/link-to-mid", Kind: 'l', Dest: "mid"})
		add(BEntry{Path: "dangling", Kind: 'l', Dest: "nowhere"})
		// destinations that are not in canonical form are stored and compared verbatim
		add(BEntry{Path: "link-dot-slash", Kind: 'l', Dest: "./zero.bin"})
		add(BEntry{Path: "link-trailing-slash", Kind: 'l', Dest: "top/"})
		add(BEntry{Path: "top/link-double-slash", Kind: 'l', Dest: "mid//other.bin"})
		add(BEntry{Path: "top/link-dotdot", Kind: 'l', Dest: "mid/../mid/other.bin"})
	}
	nw.Normalize()
	return nw
}

// WeakPreservingTweak changes three consecutive bytes of one block of data (at or after pos, wrapping to the start
// of the data) by +1, -2, +1: the rolling checksum of every block is unchanged, the content is not.
func WeakPreservingTweak(data []byte, pos int) (int, bool) {
	n := len(data)
	for k := 0; k < n; k++ {
		p := (pos + k) % n
		if p+2 >= n || p/BS != (p+2)/BS {
			continue
		}
		if data[p] <= 254 && data[p+1] >= 2 && data[p+2] <= 254 {
			data[p]++
			data[p+1] -= 2
			data[p+2]++
			return p, true
		}
	}
	return 0, false
}
