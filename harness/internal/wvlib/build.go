package wvlib

import (
	"bytes"
	"fmt"
	"os"
	"path/filepath"
	"sort"
	"strings"
	"time"
)

// BEntry is one entry of a build: a regular file, a directory or a symlink.
type BEntry struct {
	Path string // slash-separated, relative
	Kind byte   // 'f', 'd', 'l'
	Data []byte
	Dest string
}

// Build is a directory tree described in memory.
type Build struct {
	Entries []BEntry
	ReadErr string `json:"read_err,omitempty"` // set by ReadTree when the listing is partial
}

func (b *Build) Clone() *Build {
	nb := &Build{}
	for _, e := range b.Entries {
		e.Data = append([]byte(nil), e.Data...)
		nb.Entries = append(nb.Entries, e)
	}
	return nb
}

func (b *Build) Find(path string) *BEntry {
	for i := range b.Entries {
		if b.Entries[i].Path == path {
			return &b.Entries[i]
		}
	}
	return nil
}

func (b *Build) Remove(path string) {
	var out []BEntry
	for _, e := range b.Entries {
		if e.Path == path || strings.HasPrefix(e.Path, path+"/") {
			continue
		}
		out = append(out, e)
	}
	b.Entries = out
}

// Files returns the regular files sorted by path.
func (b *Build) Files() []BEntry {
	var fs []BEntry
	for _, e := range b.Entries {
		if e.Kind == 'f' {
			fs = append(fs, e)
		}
	}
	sort.Slice(fs, func(i, j int) bool { return fs[i].Path < fs[j].Path })
	return fs
}

// Normalize adds the parent directories of every entry and sorts by path.
func (b *Build) Normalize() {
	seen := map[string]byte{}
	for _, e := range b.Entries {
		seen[e.Path] = e.Kind
	}
	for _, e := range append([]BEntry(nil), b.Entries...) {
		p := e.Path
		for {
			i := strings.LastIndex(p, "/")
			if i < 0 {
				break
			}
			p = p[:i]
			if _, ok := seen[p]; !ok {
				seen[p] = 'd'
				b.Entries = append(b.Entries, BEntry{Path: p, Kind: 'd'})
			}
		}
	}
	sort.Slice(b.Entries, func(i, j int) bool { return b.Entries[i].Path < b.Entries[j].Path })
}

// Write materialises the build under dir (which is created).
func (b *Build) Write(dir string) error {
	if err := os.MkdirAll(dir, 0o755); err != nil {
		return err
	}
	es := append([]BEntry(nil), b.Entries...)
	sort.Slice(es, func(i, j int) bool { return es[i].Path < es[j].Path })
	for _, e := range es {
		p := filepath.Join(dir, filepath.FromSlash(e.Path))
		switch e.Kind {
		case 'd':
			if err := os.MkdirAll(p, 0o755); err != nil {
				return err
			}
		case 'f':
			if err := os.MkdirAll(filepath.Dir(p), 0o755); err != nil {
				return err
			}
			if err := os.WriteFile(p, e.Data, 0o644); err != nil {
				return err
			}
		case 'l':
			if err := os.MkdirAll(filepath.Dir(p), 0o755); err != nil {
				return err
			}
			if err := os.Symlink(e.Dest, p); err != nil {
				return err
			}
		}
	}
	return nil
}

// ReadTree walks dir independently of wharf/lake (Lstat, ReadFile, Readlink).
// ReadTree reads a directory tree.  An error in the middle of the walk (a transient one: the machine short of file
// handles or memory under load) would leave a PARTIAL listing that an oracle then reports as missing entries, so
// the walk is repeated a few times before the error is believed, and a listing that is still partial says so
// (Build.ReadErr, shown first by DiffTrees).
func ReadTree(dir string) (*Build, error) {
	var b *Build
	var err error
	for attempt := 0; attempt < 4; attempt++ {
		b, err = readTreeOnce(dir)
		if err == nil || os.IsNotExist(err) {
			break
		}
		time.Sleep(time.Duration(150*(attempt+1)) * time.Millisecond)
	}
	if err != nil && !os.IsNotExist(err) {
		b.ReadErr = err.Error()
	}
	return b, err
}

func readTreeOnce(dir string) (*Build, error) {
	b := &Build{}
	var walk func(rel string) error
	walk = func(rel string) error {
		full := filepath.Join(dir, filepath.FromSlash(rel))
		ents, err := os.ReadDir(full)
		if err != nil {
			return err
		}
		for _, de := range ents {
			r := de.Name()
			if rel != "" {
				r = rel + "/" + de.Name()
			}
			fp := filepath.Join(dir, filepath.FromSlash(r))
			st, err := os.Lstat(fp)
			if err != nil {
				return err
			}
			switch {
			case st.Mode()&os.ModeSymlink != 0:
				dest, err := os.Readlink(fp)
				if err != nil {
					return err
				}
				b.Entries = append(b.Entries, BEntry{Path: r, Kind: 'l', Dest: dest})
			case st.IsDir():
				b.Entries = append(b.Entries, BEntry{Path: r, Kind: 'd'})
				if err := walk(r); err != nil {
					return err
				}
			default:
				data, err := os.ReadFile(fp)
				if err != nil {
					return err
				}
				b.Entries = append(b.Entries, BEntry{Path: r, Kind: 'f', Data: data})
			}
		}
		return nil
	}
	if err := walk(""); err != nil {
		return nil, err
	}
	sort.Slice(b.Entries, func(i, j int) bool { return b.Entries[i].Path < b.Entries[j].Path })
	return b, nil
}

// Canon renders a sorted listing: kind, path, and size+fnv / destination.
func (b *Build) Canon() string {
	es := append([]BEntry(nil), b.Entries...)
	sort.Slice(es, func(i, j int) bool { return es[i].Path < es[j].Path })
	var sb strings.Builder
	for _, e := range es {
		switch e.Kind {
		case 'd':
			fmt.Fprintf(&sb, "d %s\n", e.Path)
		case 'f':
			fmt.Fprintf(&sb, "f %s %d %d\n", e.Path, len(e.Data), Fnv(e.Data))
		case 'l':
			fmt.Fprintf(&sb, "l %s -> %s\n", e.Path, e.Dest)
		}
	}
	return sb.String()
}

// DiffTrees describes the first few differences between two trees ("" when equal).
func DiffTrees(got, want *Build) string {
	g := map[string]BEntry{}
	for _, e := range got.Entries {
		g[e.Path] = e
	}
	w := map[string]BEntry{}
	for _, e := range want.Entries {
		w[e.Path] = e
	}
	var diffs []string
	if got.ReadErr != "" {
		diffs = append(diffs, "THE LISTING OF THE TREE IS PARTIAL, reading it failed: "+got.ReadErr)
	}
	var paths []string
	for p := range g {
		paths = append(paths, p)
	}
	for p := range w {
		if _, ok := g[p]; !ok {
			paths = append(paths, p)
		}
	}
	sort.Strings(paths)
	for _, p := range paths {
		ge, gok := g[p]
		we, wok := w[p]
		switch {
		case !gok:
			diffs = append(diffs, fmt.Sprintf("missing %c %s", we.Kind, p))
		case !wok:
			diffs = append(diffs, fmt.Sprintf("leftover %c %s", ge.Kind, p))
		case ge.Kind != we.Kind:
			diffs = append(diffs, fmt.Sprintf("kind %s: got %c want %c", p, ge.Kind, we.Kind))
		case ge.Kind == 'f' && !bytes.Equal(ge.Data, we.Data):
			diffs = append(diffs, fmt.Sprintf("content %s: got %d bytes fnv %d, want %d bytes fnv %d (first difference at %d)", p, len(ge.Data), Fnv(ge.Data), len(we.Data), Fnv(we.Data), firstDiff(ge.Data, we.Data)))
		case ge.Kind == 'l' && ge.Dest != we.Dest:
			diffs = append(diffs, fmt.Sprintf("symlink %s: got -> %s want -> %s", p, ge.Dest, we.Dest))
		}
		if len(diffs) >= 6 {
			break
		}
	}
	return strings.Join(diffs, "; ")
}

func firstDiff(a, b []byte) int {
	n := len(a)
	if len(b) < n {
		n = len(b)
	}
	for i := 0; i < n; i++ {
		if a[i] != b[i] {
			return i
		}
	}
	return n
}

// ---------------------------------------------------------------------------------------------
// generation of build pairs

const BS = 65536

// PairOpts steers the generator.
type PairOpts struct {
	MaxFiles   int
	AllowLarge bool // allow a file > 4 MiB
	Symlinks   bool
	KindClash  bool // allow a path to change kind between old and new (file<->dir<->symlink)
	SmallOnly  bool // keep every file below ~3 blocks (fast cases)
	Triple     bool // force the relation "head + whole copy + tail of one old file" (adds a 3-block old file)
}

var sizeClasses = []int{0, 1, 2, 100, BS - 1, BS, BS + 1, 2*BS - 1, 2 * BS, 2*BS + 1, 3 * BS, 3*BS + 100, 5*BS + 7}

func genSize(r *Rng, o PairOpts) int {
	if o.SmallOnly {
		return r.Pick(0, 1, 2, 17, 100, 1000, BS-1, BS, BS+1, 2*BS+1, r.Intn(3*BS))
	}
	if o.AllowLarge && r.Intn(25) == 0 {
		return 4*1024*1024 + r.Pick(-1, 0, 1, 10, BS, 2*BS-2, 2*BS+5, r.Intn(1<<20))
	}
	if r.Intn(3) == 0 {
		return r.Intn(6 * BS)
	}
	return sizeClasses[r.Intn(len(sizeClasses))]
}

var nameParts = []string{"a", "b", "c", "data", "bin", "lib", "x", "res", "deep"}

func genPath(r *Rng, used map[string]bool, ext string) string {
	for {
		depth := r.Intn(4)
		var parts []string
		for i := 0; i < depth; i++ {
			parts = append(parts, nameParts[r.Intn(len(nameParts))])
		}
		parts = append(parts, fmt.Sprintf("%s%d%s", nameParts[r.Intn(len(nameParts))], r.Intn(50), ext))
		p := strings.Join(parts, "/")
		// no path may be a prefix-dir of another entry of a different kind
		ok := !used[p]
		for q := p; ok; {
			i := strings.LastIndex(q, "/")
			if i < 0 {
				break
			}
			q = q[:i]
			if used["F:"+q] {
				ok = false
			}
		}
		if ok && !used["D:"+p] {
			used[p] = true
			used["F:"+p] = true
			for q := p; ; {
				i := strings.LastIndex(q, "/")
				if i < 0 {
					break
				}
				q = q[:i]
				used["D:"+q] = true
			}
			return p
		}
	}
}

// Edit applies k localized edits; returns the new content and the number of bytes the edits introduced.
func Edit(r *Rng, data []byte, k int) ([]byte, int) {
	out := append([]byte(nil), data...)
	introduced := 0
	for ; k > 0; k-- {
		pos := 0
		if len(out) > 0 {
			pos = r.Intn(len(out) + 1)
		}
		if r.Intn(3) == 0 && len(out) > 0 {
			// around a block boundary
			pos = (pos / BS) * BS
			pos += r.Pick(-1, 0, 1)
			if pos < 0 {
				pos = 0
			}
			if pos > len(out) {
				pos = len(out)
			}
		}
		n := r.Pick(1, 2, 10, 1000, BS-1, BS, BS+1, r.Intn(2*BS)+1)
		switch r.Intn(3) {
		case 0: // overwrite
			if pos+n > len(out) {
				n = len(out) - pos
			}
			if n > 0 {
				copy(out[pos:], r.Bytes(n))
				introduced += n
			}
		case 1: // insert
			ins := r.Bytes(n)
			if r.Intn(4) == 0 {
				// a run of one repeated byte longer than a block (padding): while the differ rolls over it the weak
				// hash of consecutive windows does not change
				n = r.Pick(BS+1, BS+4464, 2*BS+5)
				ins = bytes.Repeat([]byte{byte(r.Intn(256))}, n)
			}
			out = append(out[:pos], append(ins, out[pos:]...)...)
			introduced += n
		default: // delete
			if pos+n > len(out) {
				n = len(out) - pos
			}
			out = append(out[:pos], out[pos+n:]...)
		}
	}
	return out, introduced
}

// WeakTwins returns nBlocks full blocks (plus a short tail) in which every second block differs from its
// predecessor but has the SAME rsync weak hash: two bytes 512 positions apart whose values differ by 128 are swapped
// (the byte sum is unchanged and the weighted sum moves by 512*128 = 0 mod 2^16).
func WeakTwins(r *Rng, nBlocks, tail int) []byte {
	blk := r.Bytes(BS)
	out := make([]byte, 0, nBlocks*BS+tail)
	i := 0
	for b := 0; b < nBlocks; b++ {
		if b%2 == 0 {
			// prepare a pair of positions whose values differ by 128
			i = r.Intn(BS - 512)
			blk[i+512] = blk[i] ^ 0x80
		} else {
			// the twin of the previous block
			blk[i], blk[i+512] = blk[i+512], blk[i]
		}
		out = append(out, blk...)
	}
	return append(out, r.Bytes(tail)...)
}

// GenPair produces an (old,new) pair with the path-level relations of the properties' quantifiers.
// The description lists which relations were used (for the evidence distribution).
func GenPair(r *Rng, o PairOpts) (old, nw *Build, rel []string) {
	if o.MaxFiles == 0 {
		o.MaxFiles = 8
	}
	old, nw = &Build{}, &Build{}
	usedOld := map[string]bool{}
	nOld := 1 + r.Intn(o.MaxFiles)
	lowEntropy := r.Intn(6) == 0
	mk := func(n int) []byte {
		if lowEntropy {
			return r.SmallAlpha(n, 2)
		}
		return r.Bytes(n)
	}
	for i := 0; i < nOld; i++ {
		data := mk(genSize(r, o))
		if !o.SmallOnly && r.Intn(8) == 0 {
			data = WeakTwins(r, 2+r.Intn(3), r.Pick(0, 1, 700))
		}
		old.Entries = append(old.Entries, BEntry{Path: genPath(r, usedOld, ".dat"), Kind: 'f', Data: data})
	}
	if o.Triple {
		old.Entries = append([]BEntry{{Path: genPath(r, usedOld, ".dat"), Kind: 'f', Data: r.Bytes(3*BS + r.Pick(0, 1, 999))}}, old.Entries...)
	}
	if r.Intn(3) == 0 {
		old.Entries = append(old.Entries, BEntry{Path: genPath(r, usedOld, ".d"), Kind: 'd'})
	}
	if o.Symlinks && r.Intn(2) == 0 {
		old.Entries = append(old.Entries, BEntry{Path: genPath(r, usedOld, ".lnk"), Kind: 'l', Dest: r.pickDest(old)})
	}
	usedNew := map[string]bool{}
	claim := func(p string) bool {
		if usedNew[p] || usedNew["D:"+p] {
			return false
		}
		for q := p; ; {
			i := strings.LastIndex(q, "/")
			if i < 0 {
				break
			}
			q = q[:i]
			if usedNew["F:"+q] {
				return false
			}
		}
		usedNew[p] = true
		usedNew["F:"+p] = true
		for q := p; ; {
			i := strings.LastIndex(q, "/")
			if i < 0 {
				break
			}
			q = q[:i]
			usedNew["D:"+q] = true
		}
		return true
	}
	addNew := func(p string, data []byte) bool {
		if !claim(p) {
			return false
		}
		nw.Entries = append(nw.Entries, BEntry{Path: p, Kind: 'f', Data: data})
		return true
	}
	oldFiles := old.Files()
	for _, f := range oldFiles {
		switch r.Intn(12) {
		case 0, 1, 2: // unchanged
			if addNew(f.Path, f.Data) {
				rel = append(rel, "unchanged")
			}
		case 3, 4: // patched in place
			d, _ := Edit(r, f.Data, 1+r.Intn(3))
			if addNew(f.Path, d) {
				rel = append(rel, "patched")
			}
		case 5: // renamed
			if addNew(genPath(r, usedOld, ".ren"), f.Data) {
				rel = append(rel, "renamed")
			}
		case 6: // duplicated, keeping or not the original
			n := 1 + r.Intn(3)
			for j := 0; j < n; j++ {
				addNew(genPath(r, usedOld, ".dup"), f.Data)
			}
			if r.Bool() {
				addNew(f.Path, f.Data)
				rel = append(rel, "duplicated+kept")
			} else {
				rel = append(rel, "duplicated")
			}
		case 7: // patched AND source of a rename
			d, _ := Edit(r, f.Data, 1)
			if addNew(f.Path, d) {
				addNew(genPath(r, usedOld, ".ren"), f.Data)
				rel = append(rel, "patched+rename-source")
			}
		case 8: // grows / shrinks / becomes empty
			switch r.Intn(3) {
			case 0:
				addNew(f.Path, append(append([]byte(nil), f.Data...), mk(r.Pick(1, BS-1, BS, BS+1, r.Intn(2*BS)+1))...))
				rel = append(rel, "grows")
			case 1:
				if len(f.Data) > 0 {
					addNew(f.Path, f.Data[:r.Intn(len(f.Data))])
				} else {
					addNew(f.Path, nil)
				}
				rel = append(rel, "shrinks")
			default:
				addNew(f.Path, nil)
				rel = append(rel, "becomes-empty")
			}
		case 9: // block-aligned prefix or suffix of the old file under a new name
			nb := len(f.Data) / BS
			if nb > 0 {
				k := 1 + r.Intn(nb)
				if r.Bool() {
					addNew(genPath(r, usedOld, ".pre"), f.Data[:k*BS])
					rel = append(rel, "block-prefix")
				} else {
					addNew(genPath(r, usedOld, ".suf"), f.Data[(nb-k)*BS:])
					rel = append(rel, "block-suffix")
				}
			}
			addNew(f.Path, f.Data)
		default: // removed
			rel = append(rel, "removed")
		}
	}
	// swaps and rename chains among files present in both
	if len(oldFiles) >= 2 && r.Intn(3) == 0 {
		a, b := oldFiles[r.Intn(len(oldFiles))], oldFiles[r.Intn(len(oldFiles))]
		if a.Path != b.Path {
			nw.Remove(a.Path)
			nw.Remove(b.Path)
			delete(usedNew, a.Path)
			delete(usedNew, "F:"+a.Path)
			delete(usedNew, b.Path)
			delete(usedNew, "F:"+b.Path)
			if r.Bool() {
				addNew(a.Path, b.Data)
				addNew(b.Path, a.Data)
				rel = append(rel, "swapped")
			} else {
				// chain: a -> b, b -> c
				addNew(b.Path, a.Data)
				addNew(genPath(r, usedOld, ".chain"), b.Data)
				rel = append(rel, "rename-chain")
			}
		}
	}
	// the content of one old file ALSO lands on the path of another old file, whose own content is gone:
	// in place this is a copy onto an existing (longer or shorter) file
	if len(oldFiles) >= 2 && r.Intn(3) == 0 {
		a, b := oldFiles[r.Intn(len(oldFiles))], oldFiles[r.Intn(len(oldFiles))]
		if a.Path != b.Path && len(a.Data) != len(b.Data) && nw.Find(a.Path) != nil {
			nw.Remove(b.Path)
			delete(usedNew, b.Path)
			delete(usedNew, "F:"+b.Path)
			if addNew(b.Path, a.Data) {
				rel = append(rel, "copied-over-existing")
			}
		}
	}
	// one old file reused three times in a row: a file ending with its first k blocks, a whole copy of it, a file
	// starting at its block k (consecutive readers of the same old file at touching offsets), brand-new files between
	if o.Triple || r.Intn(3) == 0 {
		for _, f := range oldFiles {
			nb := len(f.Data) / BS
			if nb < 2 {
				continue
			}
			k := 1 + r.Intn(nb-1)
			pre := genPath(r, usedOld, "")
			ok := addNew(pre+"-1head.bin", append(mk(r.Pick(0, 10, BS)), f.Data[:k*BS]...))
			if r.Bool() {
				addNew(pre+"-2new.bin", mk(r.Pick(1, 100, BS+1)))
			}
			ok = addNew(pre+"-3copy.bin", f.Data) && ok
			if r.Bool() {
				addNew(pre+"-4new.bin", mk(r.Pick(1, 100)))
			}
			ok = addNew(pre+"-5tail.bin", append(append([]byte(nil), f.Data[k*BS:]...), mk(r.Pick(0, 7))...)) && ok
			if ok {
				rel = append(rel, "head+copy+tail-of-one-old-file")
			}
			break
		}
	}
	// shared blocks: a new file built from blocks of several old files
	if r.Intn(4) == 0 && len(oldFiles) > 0 {
		var d []byte
		for j := 0; j < 1+r.Intn(4); j++ {
			f := oldFiles[r.Intn(len(oldFiles))]
			nb := len(f.Data) / BS
			if nb > 0 {
				k := r.Intn(nb)
				d = append(d, f.Data[k*BS:(k+1)*BS]...)
			} else {
				d = append(d, f.Data...)
			}
		}
		if addNew(genPath(r, usedOld, ".mix"), d) {
			rel = append(rel, "shared-blocks")
		}
	}
	// brand-new files
	for j := r.Intn(3); j > 0; j-- {
		if addNew(genPath(r, usedOld, ".new"), mk(genSize(r, o))) {
			rel = append(rel, "added")
		}
	}
	// directories and symlinks
	for _, e := range old.Entries {
		switch e.Kind {
		case 'd':
			if r.Bool() && claim(e.Path) {
				nw.Entries = append(nw.Entries, e)
			} else {
				rel = append(rel, "dir-removed")
			}
		case 'l':
			switch r.Intn(3) {
			case 0:
				if claim(e.Path) {
					nw.Entries = append(nw.Entries, e)
				}
			case 1:
				if claim(e.Path) {
					nw.Entries = append(nw.Entries, BEntry{Path: e.Path, Kind: 'l', Dest: e.Dest + "x"})
					rel = append(rel, "symlink-retargeted")
				}
			default:
				rel = append(rel, "symlink-removed")
			}
		}
	}
	if r.Intn(3) == 0 {
		p := genPath(r, usedOld, ".nd")
		if claim(p) {
			nw.Entries = append(nw.Entries, BEntry{Path: p, Kind: 'd'})
			rel = append(rel, "dir-added")
		}
	}
	if o.Symlinks && r.Intn(3) == 0 {
		p := genPath(r, usedOld, ".nl")
		if claim(p) {
			nw.Entries = append(nw.Entries, BEntry{Path: p, Kind: 'l', Dest: r.pickDest(nw)})
			rel = append(rel, "symlink-added")
		}
	}
	if len(nw.Files()) == 0 && r.Intn(4) != 0 {
		addNew(genPath(r, usedOld, ".only"), mk(genSize(r, o)))
	}
	old.Normalize()
	nw.Normalize()
	return
}

func (r *Rng) pickDest(b *Build) string {
	if len(b.Entries) > 0 && r.Intn(3) != 0 {
		e := b.Entries[r.Intn(len(b.Entries))]
		base := filepath.Base(e.Path)
		// destinations are stored and compared verbatim: some are not in canonical form
		switch r.Intn(6) {
		case 0:
			return "./" + base
		case 1:
			return base + "/"
		case 2:
			return "x/../" + base
		}
		return base
	}
	return r.pickOne("nowhere", "../up", "/abs/olute", "a/b", "a//b", "./.", "dir/./file")
}

func (r *Rng) pickOne(xs ...string) string { return xs[r.Intn(len(xs))] }

// AddKindClashes makes one or two paths of the old build have ANOTHER kind in the new build (file <-> directory
// <-> symlink), keeping the new build consistent (what lay below a path that becomes a file or symlink goes, or
// is renamed elsewhere).  Both builds come back normalised.  Returns a description of what was done.
func AddKindClashes(r *Rng, old, nw *Build) []string {
	old.Normalize()
	nw.Normalize()
	var desc []string
	for k := 0; k < 1+r.Intn(2); k++ {
		var cands []BEntry
		for _, e := range old.Entries {
			if ne := nw.Find(e.Path); ne == nil || ne.Kind == e.Kind {
				cands = append(cands, e)
			}
		}
		if len(cands) == 0 {
			break
		}
		e := cands[r.Intn(len(cands))]
		p := e.Path
		// what the new build currently has at or below p
		var below []BEntry
		for _, ne := range nw.Entries {
			if strings.HasPrefix(ne.Path, p+"/") && ne.Kind == 'f' {
				below = append(below, ne)
			}
		}
		// a path of the new build may not pass through a file or symlink: p's ancestors must stay directories
		blocked := false
		for q := p; ; {
			i := strings.LastIndex(q, "/")
			if i < 0 {
				break
			}
			q = q[:i]
			if ne := nw.Find(q); ne != nil && ne.Kind != 'd' {
				blocked = true
			}
		}
		if blocked {
			continue
		}
		keepSome := func() {
			// some of what lay below p moves elsewhere in the new build (renames out of the replaced directory)
			for _, b := range below {
				if r.Intn(2) == 0 {
					np := "moved-out/" + strings.ReplaceAll(b.Path, "/", "_")
					if nw.Find(np) == nil {
						nw.Entries = append(nw.Entries, BEntry{Path: np, Kind: 'f', Data: b.Data})
					}
				}
			}
		}
		switch e.Kind {
		case 'f':
			nw.Remove(p)
			switch r.Intn(3) {
			case 0:
				nw.Entries = append(nw.Entries, BEntry{Path: p, Kind: 'l', Dest: r.Pick2("keep", "../x", "nowhere")})
				if r.Bool() {
					nw.Entries = append(nw.Entries, BEntry{Path: "renamed-" + strings.ReplaceAll(p, "/", "_"), Kind: 'f', Data: e.Data})
				}
				desc = append(desc, "file->symlink "+p)
			default:
				nw.Entries = append(nw.Entries, BEntry{Path: p, Kind: 'd'})
				if r.Bool() {
					nw.Entries = append(nw.Entries, BEntry{Path: p + "/fresh.bin", Kind: 'f', Data: r.Bytes(1 + r.Intn(3000))})
				}
				if r.Intn(3) == 0 {
					// the old file itself lives on inside the new directory
					nw.Entries = append(nw.Entries, BEntry{Path: p + "/same.bin", Kind: 'f', Data: e.Data})
				}
				desc = append(desc, "file->dir "+p)
			}
		case 'd':
			keepSome()
			nw.Remove(p)
			if r.Bool() {
				data := r.Bytes(r.Intn(2000))
				if files := old.Files(); len(files) > 0 && r.Bool() {
					// the file that takes the directory's place is an old file renamed (or copied) onto it
					src := files[r.Intn(len(files))]
					data = src.Data
					if r.Bool() && !strings.HasPrefix(src.Path, p+"/") {
						nw.Remove(src.Path)
					}
				}
				nw.Entries = append(nw.Entries, BEntry{Path: p, Kind: 'f', Data: data})
				desc = append(desc, "dir->file "+p)
			} else {
				dest := r.Pick2("moved-out", "nowhere", "/abs", "KEPT")
				if dest == "KEPT" {
					// the link points to a directory of the new build that holds the same relative paths as the
					// directory it replaces (a versioned folder and a `current` link): what is deleted below the old
					// directory must not be deleted THROUGH the link
					kept := p + ".kept"
					dest = kept
					if i := strings.LastIndex(kept, "/"); i >= 0 {
						dest = kept[i+1:]
					}
					for _, oe := range old.Entries {
						if strings.HasPrefix(oe.Path, p+"/") && oe.Kind == 'f' && nw.Find(kept+oe.Path[len(p):]) == nil {
							nw.Entries = append(nw.Entries, BEntry{Path: kept + oe.Path[len(p):], Kind: 'f', Data: oe.Data})
						}
					}
				}
				nw.Entries = append(nw.Entries, BEntry{Path: p, Kind: 'l', Dest: dest})
				desc = append(desc, "dir->symlink "+p)
			}
		case 'l':
			nw.Remove(p)
			if r.Bool() {
				nw.Entries = append(nw.Entries, BEntry{Path: p, Kind: 'f', Data: r.Bytes(1 + r.Intn(2000))})
				desc = append(desc, "symlink->file "+p)
			} else {
				nw.Entries = append(nw.Entries, BEntry{Path: p, Kind: 'd'}, BEntry{Path: p + "/in.bin", Kind: 'f', Data: r.Bytes(1 + r.Intn(2000))})
				desc = append(desc, "symlink->dir "+p)
			}
		}
		nw.Normalize()
	}
	// drop new entries that ended up below a file or symlink of the new build
	var keep []BEntry
	for _, ne := range nw.Entries {
		ok := true
		for q := ne.Path; ; {
			i := strings.LastIndex(q, "/")
			if i < 0 {
				break
			}
			q = q[:i]
			if a := nw.Find(q); a != nil && a.Kind != 'd' {
				ok = false
			}
		}
		if ok {
			keep = append(keep, ne)
		}
	}
	nw.Entries = keep
	nw.Normalize()
	return desc
}

// Pick2 picks one of the strings.
func (r *Rng) Pick2(ss ...string) string { return ss[r.Intn(len(ss))] }
