package main

import (
	"bytes"
	"context"
	"encoding/json"
	"fmt"
	"github.com/itchio/wharf/pwr/bowl"
	"io"
	"os"
	"strings"
	"sync"

	"github.com/itchio/headway/state"
	"github.com/itchio/lake/tlc"
	"github.com/itchio/wharf/pwr"

	"wv/internal/wvlib"
)

func init() { runners["C18"] = runC18 }

const pBS = 65536

// memWPool is an in-memory lake.WritablePool recording what reaches it.
type memWPool struct {
	memPool
	mu      sync.Mutex
	written map[int64]*bytes.Buffer
	closed  map[int64]bool
}

type memW struct {
	p *memWPool
	i int64
}

func (w *memW) Write(b []byte) (int, error) {
	w.p.mu.Lock()
	defer w.p.mu.Unlock()
	return w.p.written[w.i].Write(b)
}
func (w *memW) Close() error {
	w.p.mu.Lock()
	w.p.closed[w.i] = true
	w.p.mu.Unlock()
	return nil
}
func (p *memWPool) GetWriter(i int64) (io.WriteCloser, error) {
	p.mu.Lock()
	defer p.mu.Unlock()
	if p.written == nil {
		p.written = map[int64]*bytes.Buffer{}
		p.closed = map[int64]bool{}
	}
	p.written[i] = &bytes.Buffer{}
	return &memW{p, i}, nil
}

// memContainer builds a container of regular files with the given contents.
func memContainer(files [][]byte) *tlc.Container {
	c := &tlc.Container{}
	off := int64(0)
	for i, f := range files {
		c.Files = append(c.Files, &tlc.File{Path: fmt.Sprintf("f%d", i), Mode: 0o644, Size: int64(len(f)), Offset: off})
		off += int64(len(f))
	}
	c.Size = off
	return c
}

func memSignature(files [][]byte) (*pwr.SignatureInfo, error) {
	c := memContainer(files)
	h, err := pwr.ComputeSignature(context.Background(), c, &memPool{files: files}, &state.Consumer{})
	if err != nil {
		return nil, err
	}
	return &pwr.SignatureInfo{Container: c, Hashes: h}, nil
}

type C18Case struct {
	Seed  uint64 `json:"seed"`
	Mode  string `json:"mode"` // "error" | "wound"
	Shape string `json:"shape"`
	Info  string `json:"info,omitempty"`
	// Interleave: a second file of the same pool is written (with its signed content) through a writer that is
	// open at the same time, its Write calls falling between those of the file under test
	Interleave bool `json:"interleave,omitempty"`
}

func c18Expand(c *C18Case) (S, D []byte, cuts []int) {
	r := wvlib.NewRng(c.Seed)
	sizes := []int{0, 1, pBS - 1, pBS, pBS + 1, 2*pBS - 1, 2 * pBS, 2*pBS + 1, 3 * pBS, 3*pBS + 100, 5*pBS + 7}
	sz := sizes[r.Intn(len(sizes))]
	if r.Intn(4) == 0 {
		sz = r.Intn(4 * pBS)
	}
	if c.Shape == "periodic" {
		// every block identical: a block rejected at index k would be accepted at index k+1
		blk := r.Bytes(pBS)
		nb := 1 + r.Intn(4)
		for i := 0; i < nb; i++ {
			S = append(S, blk...)
		}
		if r.Bool() {
			S = append(S, blk[:r.Intn(pBS)]...)
		}
	} else {
		S = r.Bytes(sz)
	}
	D = append([]byte(nil), S...)
	switch c.Shape {
	case "same":
	case "prefix":
		nb := (len(S) + pBS - 1) / pBS
		if nb > 0 {
			cut := pBS * r.Intn(nb+1)
			if cut > len(S) {
				cut = len(S)
			}
			D = D[:cut]
		}
	case "flips", "periodic":
		k := 1 + r.Intn(3)
		for i := 0; i < k && len(D) > 0; i++ {
			pos := r.Intn(len(D))
			switch r.Intn(4) {
			case 0:
				pos = (pos / pBS) * pBS // first byte of a block
			case 1:
				pos = (pos/pBS)*pBS + pBS - 1 // last byte of a block
				if pos >= len(D) {
					pos = len(D) - 1
				}
			case 2:
				pos = len(D) - 1
			}
			if r.Intn(3) == 0 {
				// the weak hash of the block stays what the signature says; only the strong hash differs
				if _, ok := wvlib.WeakPreservingTweak(D, pos); ok {
					continue
				}
			}
			D[pos] ^= byte(1 + r.Intn(255))
		}
		if c.Shape == "periodic" && r.Bool() {
			// S = A B B B…, D = S without its first block: block k of D is wrong at index k
			// but equals the signed block k+1
			a := r.Bytes(pBS)
			S = append(a, S...)
			D = append([]byte(nil), S[pBS:]...)
		}
	case "shorter":
		if len(D) > 0 {
			D = D[:r.Intn(len(D))]
		}
	case "longer":
		D = append(D, r.Bytes(r.Pick(1, pBS-1, pBS, pBS+1, 2*pBS+3, r.Intn(3*pBS)+1))...)
	case "unrelated":
		D = r.Bytes(sizes[r.Intn(len(sizes))])
	}
	// slicing
	mode := r.Intn(5)
	rem := len(D)
	for rem > 0 {
		var n int
		switch mode {
		case 0:
			n = 1 + r.Intn(50000)
		case 1:
			n = r.Pick(pBS-1, pBS, pBS+1, 2*pBS, 2*pBS+1, pBS/2)
		case 2:
			n = rem
		case 3:
			n = 1 + r.Intn(3*pBS)
		default:
			n = r.Pick(1, 2, 32768, 16384, 4096)
			if n < 4096 && len(D) > 100000 {
				n = 4096
			}
		}
		if n > rem {
			n = rem
		}
		cuts = append(cuts, n)
		rem -= n
	}
	return
}

func min(a, b int) int {
	if a < b {
		return a
	}
	return b
}

// c18Impl drives the real validating pool.
func c18Impl(c *C18Case, S, D []byte, cuts []int) (string, error) {
	files := [][]byte{S}
	var S2 []byte
	ir := wvlib.NewRng(c.Seed ^ 0x1e7)
	if c.Interleave {
		S2 = ir.Bytes(ir.Pick(1, pBS/2, pBS+pBS/3, 2*pBS+17))
		files = append(files, S2)
	}
	sig, err := memSignature(files)
	if err != nil {
		return "", err
	}
	inner := &memWPool{memPool: memPool{files: files}}
	vp := &pwr.ValidatingPool{Pool: inner, Container: sig.Container, Signature: sig}
	var got []*pwr.Wound
	var otherBad []string
	var wg sync.WaitGroup
	if c.Mode == "wound" {
		vp.Wounds = make(chan *pwr.Wound, 16)
		wg.Add(1)
		go func() {
			defer wg.Done()
			for w := range vp.Wounds {
				if w.Index == 0 {
					got = append(got, w)
				} else if w.Kind != pwr.WoundKind_CLOSED_FILE {
					otherBad = append(otherBad, fmt.Sprintf("wound [%d,%d) on the other file although its signed content was written", w.Start, w.End))
				}
			}
		}()
	}
	w, err := vp.GetWriter(0)
	if err != nil {
		return "", err
	}
	// the other writer of the same pool
	var w2 io.WriteCloser
	pos2 := 0
	other := func(last bool) error {
		if !c.Interleave {
			return nil
		}
		if w2 == nil && pos2 == 0 {
			var err error
			if w2, err = vp.GetWriter(1); err != nil {
				return err
			}
		}
		if w2 == nil {
			return nil
		}
		n := ir.Intn(len(S2)-pos2+1) / 2
		if last {
			n = len(S2) - pos2
		}
		if n > 0 {
			if _, err := w2.Write(S2[pos2 : pos2+n]); err != nil {
				return fmt.Errorf("writing the signed content of the other file fails: %v", err)
			}
			pos2 += n
		}
		if last {
			err := w2.Close()
			w2 = nil
			if err != nil {
				return fmt.Errorf("closing the other file (signed content written) fails: %v", err)
			}
		}
		return nil
	}
	closeOtherEarly := ir.Bool()
	pos, okCalls := 0, 0
	failed := false
	for ci, n := range cuts {
		if err := other(closeOtherEarly && ci == len(cuts)-1); err != nil {
			return "", err
		}
		k, werr := w.Write(D[pos : pos+n])
		pos += n
		if werr != nil {
			failed = true
			break
		}
		if k != n {
			return "", fmt.Errorf("short write %d of %d without error", k, n)
		}
		okCalls++
	}
	if !closeOtherEarly || len(cuts) == 0 {
		// the other file is written to once more while the file under test has a partial block pending, and is
		// closed either before or after it
		if ir.Bool() {
			if err := other(true); err != nil {
				return "", err
			}
		} else if err := other(false); err != nil {
			return "", err
		}
	}
	cerr := w.Close()
	if err := other(true); err != nil && w2 != nil {
		return "", err
	}
	if c.Interleave {
		if wb := inner.written[1]; wb == nil || !bytes.Equal(wb.Bytes(), S2) {
			return "", fmt.Errorf("the other file's signed content did not reach the underlying pool unchanged")
		}
	}
	if vp.Wounds != nil {
		close(vp.Wounds)
		wg.Wait()
	}
	closeS := "ok"
	if cerr != nil {
		closeS = "err"
	}
	_ = failed
	if len(otherBad) > 0 {
		return "", fmt.Errorf("%s", otherBad[0])
	}
	ib := inner.written[0].Bytes()
	var sb strings.Builder
	fmt.Fprintf(&sb, "calls=%d/%d close=%s inner=%d %d wounds=", okCalls, len(cuts), closeS, len(ib), wvlib.Fnv(ib))
	for i, wd := range got {
		if i > 0 {
			sb.WriteByte(';')
		}
		k := "W"
		if wd.Kind == pwr.WoundKind_CLOSED_FILE {
			k = "H"
		} else if wd.Kind != pwr.WoundKind_FILE {
			k = "?"
		}
		fmt.Fprintf(&sb, "%s %d %d", k, wd.Start, wd.End)
	}
	return sb.String(), nil
}

// c18Oracle: model-free statement of the property on the observed behaviour.
func c18Oracle(c *C18Case, S, D []byte, cuts []int, impl string) (string, string) {
	var okCalls, total, innerLen int
	var innerFnv uint64
	var closeS, wounds string
	parts := strings.SplitN(impl, " wounds=", 2)
	fmt.Sscanf(parts[0], "calls=%d/%d close=%s inner=%d %d", &okCalls, &total, &closeS, &innerLen, &innerFnv)
	if len(parts) > 1 {
		wounds = parts[1]
	}
	nbS := 0
	if len(S) > 0 {
		nbS = (len(S) + pBS - 1) / pBS
	}
	blockOfD := func(k int) []byte {
		lo, hi := k*pBS, (k+1)*pBS
		if hi > len(D) {
			hi = len(D)
		}
		return D[lo:hi]
	}
	blockOfS := func(k int) []byte {
		lo, hi := k*pBS, (k+1)*pBS
		if hi > len(S) {
			hi = len(S)
		}
		return S[lo:hi]
	}
	nbD := (len(D) + pBS - 1) / pBS
	firstBad := -1
	for k := 0; k < nbD; k++ {
		if k >= nbS || !bytes.Equal(blockOfD(k), blockOfS(k)) {
			firstBad = k
			break
		}
	}
	if c.Mode == "error" {
		if firstBad < 0 {
			if okCalls != total || closeS != "ok" {
				return "valid-data-rejected", fmt.Sprintf("data equal to signed content (or block-aligned prefix) was rejected: %s", trunc(impl, 200))
			}
			if innerLen != len(D) || innerFnv != wvlib.Fnv(D) {
				return "passthrough-altered", "inner pool did not receive exactly the data"
			}
			return "", ""
		}
		want := D[:firstBad*pBS]
		if innerLen != len(want) || innerFnv != wvlib.Fnv(want) {
			return "bad-block-forwarded", fmt.Sprintf("first bad block is %d: inner must hold %d bytes, holds %d", firstBad, len(want), innerLen)
		}
		// the call that completes the bad block must fail: it is the write whose cumulative end reaches
		// (firstBad+1)*BS, or Close when the bad block is the short tail
		endBad := (firstBad + 1) * pBS
		if endBad > len(D) {
			if okCalls != total || closeS != "err" {
				return "bad-tail-not-rejected-by-close", trunc(impl, 200)
			}
			return "", ""
		}
		cum := 0
		failCall := -1
		for i, n := range cuts {
			cum += n
			if cum >= endBad {
				failCall = i
				break
			}
		}
		if okCalls != failCall {
			return "wrong-call-failed", fmt.Sprintf("call %d completes bad block %d but %d calls succeeded", failCall, firstBad, okCalls)
		}
		if closeS != "err" {
			return "close-after-failed-write-succeeds", "Close returned nil after a failed Write"
		}
		return "", ""
	}
	// wound mode
	if innerLen != len(D) || innerFnv != wvlib.Fnv(D) {
		return "wound-mode-altered-data", "inner pool did not receive exactly the data"
	}
	var ws []string
	if wounds != "" {
		ws = strings.Split(wounds, ";")
	}
	prevEnd := 0
	for k, s := range ws {
		var kind string
		var st, en int
		fmt.Sscanf(s, "%s %d %d", &kind, &st, &en)
		if st < prevEnd && k > 0 {
			return "wounds-out-of-order", s
		}
		if st < len(S) {
			if st != prevEnd {
				return "wounds-gap", fmt.Sprintf("marker %d starts at %d, previous ended at %d", k, st, prevEnd)
			}
			differs := k >= nbS || !bytes.Equal(blockOfD(k), blockOfS(k))
			if differs != (kind == "W") {
				return "wound-verdict-wrong", fmt.Sprintf("block %d differs=%v but marker is %s", k, differs, kind)
			}
		} else if kind != "W" {
			return "wound-verdict-wrong", fmt.Sprintf("block %d beyond signed length marked healthy", k)
		}
		if en < st {
			return "wound-malformed", s
		}
		prevEnd = en
	}
	if len(ws) != nbD {
		return "wounds-count", fmt.Sprintf("%d markers for %d blocks", len(ws), nbD)
	}
	covered := prevEnd
	wantCover := len(D)
	if wantCover > len(S) {
		wantCover = len(S)
	}
	if covered < wantCover {
		return "wounds-do-not-tile", fmt.Sprintf("markers cover up to %d, written range up to signed length is %d", covered, wantCover)
	}
	return "", ""
}

func c18One(env *Env, m *wvlib.Model, c *C18Case) {
	S, D, cuts := c18Expand(c)
	c.Info = fmt.Sprintf("signed=%d written=%d calls=%d", len(S), len(D), len(cuts))
	impl, err := c18Impl(c, S, D, cuts)
	if err != nil {
		env.R.Violate("pool-error", err.Error(), c)
		impl = "ERR " + err.Error()
	} else if cls, det := c18Oracle(c, S, D, cuts, impl); cls != "" {
		env.R.Violate(cls, det, c)
	}
	if c.Mode != "wound" && c.Seed%3 == 0 {
		// the same content reaching the validating pool through a bowl that writes into it (whole-file
		// transposition, and the bowl's entry writer): the pool's verdict has to reach the bowl's caller
		for _, via := range []string{"transpose", "entry-writer"} {
			verdict, inner, err := c18ViaPoolBowl(S, D, via, cuts)
			if err != nil {
				env.R.Violate("pool-error", "pool bowl: "+err.Error(), c)
				continue
			}
			// what the pool itself lets through (theorem C18.passthrough): the signed content, or a prefix of it that
			// ends on a block boundary
			same := bytes.HasPrefix(S, D) && (len(D) == len(S) || len(D)%pBS == 0)
			if verdict == nil && !same {
				env.R.Violate("bad-block-accepted:pool-bowl:"+via, fmt.Sprintf("%s: content that deviates from the signed one (%d bytes written, %d signed) went through a pool bowl over a validating pool without any error; %d bytes reached the inner pool", c.Info, len(D), len(S), len(inner)), c)
			}
			if verdict != nil && same {
				env.R.Violate("good-content-rejected:pool-bowl:"+via, verdict.Error(), c)
			}
			if verdict == nil && same && !bytes.Equal(inner, D) {
				env.R.Violate("bad-block-forwarded:pool-bowl:"+via, "signed content accepted but the inner pool holds something else", c)
			}
			env.R.Count("through-pool-bowl:"+via, 1)
		}
	}
	st, c1 := env.Scratch.Tok(S)
	dt, c2 := env.Scratch.Tok(D)
	cs := make([]string, len(cuts))
	for i, n := range cuts {
		cs[i] = fmt.Sprint(n)
	}
	cutS := strings.Join(cs, ",")
	if cutS == "" {
		cutS = "-"
	}
	ans, merr := m.Ask(fmt.Sprintf("c18 %s %d %s %s %s", c.Mode[:1], pBS, st, dt, cutS))
	c1()
	c2()
	if merr != nil {
		env.R.Disagree(c, impl, "MODEL-DIED", "n/a")
		return
	}
	if ans != impl {
		env.R.Disagree(c, impl, ans, "see violations")
	}
	env.R.Eval(c.Seed, !bytes.Equal(S, D) && len(D) > 0)
	env.R.Count("mode:"+c.Mode+":"+c.Shape, 1)
	if strings.Contains(impl, "close=err") {
		env.R.Count("close-err", 1)
	}
}

func runC18(env *Env) {
	R := env.R
	R.Rule = "random (signed content, written content, slicing) cases, both modes, a third of them with a second writer of the same pool open and written to in between; distinct by seed; non-trivial = written data differs from the signed content and is non-empty"
	if env.Replay != "" {
		var wrap struct {
			Case C18Case `json:"case"`
		}
		b, _ := os.ReadFile(env.Replay)
		json.Unmarshal(b, &wrap)
		m, err := wvlib.StartModel()
		if err != nil {
			fmt.Fprintln(os.Stderr, err)
			os.Exit(2)
		}
		defer m.Close()
		c18One(env, m, &wrap.Case)
		for _, v := range R.Violations {
			fmt.Printf("oracle: %s: %s\n", v.Class, v.Detail)
		}
		for _, d := range R.Disagreements {
			fmt.Printf("impl : %s\nmodel: %s\n", trunc(d.Impl, 600), trunc(d.Model, 600))
		}
		return
	}
	n := 600
	if env.Thorough() {
		n = 30000
	}
	shapes := []string{"same", "prefix", "flips", "flips", "shorter", "longer", "unrelated", "periodic", "periodic"}
	rng := wvlib.NewRng(env.Seed)
	cases := make([]*C18Case, n)
	for i := range cases {
		mode := "error"
		if i%2 == 1 {
			mode = "wound"
		}
		cases[i] = &C18Case{Seed: rng.Next(), Mode: mode, Shape: shapes[(i/2)%len(shapes)], Interleave: i%3 == 2}
	}
	models := make(chan *wvlib.Model, env.Workers)
	for i := 0; i < env.Workers; i++ {
		m, err := wvlib.StartModel()
		if err != nil {
			fmt.Fprintln(os.Stderr, "cannot start model:", err)
			os.Exit(2)
		}
		models <- m
	}
	wvlib.ParallelDo(n, env.Workers, func(i int) {
		m := <-models
		defer func() { models <- m }()
		c18One(env, m, cases[i])
		if i < 4 {
			R.Sample(cases[i])
		}
	})
	close(models)
	for m := range models {
		R.ModelLines += m.Lines
		m.Close()
	}
}

// c18ViaPoolBowl writes D to file 0 of a validating pool (signed content S, error mode) through bowl.NewPoolBowl:
// via Transpose (the old build's file 0 holds D) or via the bowl's entry writer (write calls as in cuts).
// Returns the first error any step returned, and what reached the inner pool.
func c18ViaPoolBowl(S, D []byte, via string, cuts []int) (verdict error, innerBytes []byte, err error) {
	defer func() {
		if r := recover(); r != nil {
			err = fmt.Errorf("PANIC %v", r)
		}
	}()
	sig, err := memSignature([][]byte{S})
	if err != nil {
		return nil, nil, err
	}
	inner := &memWPool{memPool: memPool{files: [][]byte{S}}}
	vp := &pwr.ValidatingPool{Pool: inner, Container: sig.Container, Signature: sig}
	oldPool := &memPool{files: [][]byte{D}}
	b, err := bowl.NewPoolBowl(bowl.PoolBowlParams{TargetContainer: memContainer([][]byte{D}), SourceContainer: sig.Container, TargetPool: oldPool, OutputPool: vp})
	if err != nil {
		return nil, nil, err
	}
	switch via {
	case "transpose":
		verdict = b.Transpose(bowl.Transposition{TargetIndex: 0, SourceIndex: 0})
	default:
		w, werr := b.GetWriter(0)
		if werr != nil {
			return nil, nil, werr
		}
		if _, rerr := w.Resume(nil); rerr != nil {
			return nil, nil, rerr
		}
		pos := 0
		for _, n := range cuts {
			if _, e := w.Write(D[pos : pos+n]); e != nil && verdict == nil {
				verdict = e
				break
			}
			pos += n
		}
		if verdict == nil && pos < len(D) {
			if _, e := w.Write(D[pos:]); e != nil {
				verdict = e
			}
		}
		if e := w.Finalize(); e != nil && verdict == nil {
			verdict = e
		}
		if e := w.Close(); e != nil && verdict == nil {
			verdict = e
		}
	}
	if e := b.Commit(); e != nil && verdict == nil {
		verdict = e
	}
	if wb := inner.written[0]; wb != nil {
		innerBytes = wb.Bytes()
	}
	return verdict, innerBytes, nil
}
