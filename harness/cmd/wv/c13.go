package main

import (
	"bytes"
	"encoding/gob"
	"fmt"
	"io"
	"strings"

	"github.com/golang/protobuf/proto"
	"github.com/itchio/wharf/pwr"
	"github.com/itchio/wharf/wire"
	"github.com/pkg/errors"

	"wv/internal/wvlib"
)

func init() { runners["C13"] = runC13 }

type C13Case struct {
	Seed  uint64 `json:"seed"`
	Comp  Comp   `json:"comp"`
	Shape string `json:"shape"`
	Sizes []int  `json:"sizes,omitempty"`
}

// sizes >= encTarget ask for a message whose protobuf ENCODING has exactly (size - encTarget) bytes
const encTarget = 1 << 30

// dataOpOfEncodedLen builds a DATA op whose marshalled length is exactly want (want >= 8).
func dataOpOfEncodedLen(r *wvlib.Rng, want int, fileIndex int64) *pwr.SyncOp {
	d := want
	for tries := 0; tries < 8 && d >= 0; tries++ {
		op := &pwr.SyncOp{Type: pwr.SyncOp_DATA, Data: make([]byte, d), FileIndex: fileIndex}
		b, _ := proto.Marshal(op)
		if len(b) == want {
			op.Data = r.Bytes(d)
			return op
		}
		d -= len(b) - want
	}
	panic(fmt.Sprintf("no data op encodes to %d bytes", want))
}

func c13Sizes(c *C13Case) []int {
	r := wvlib.NewRng(c.Seed)
	var s []int
	const K32 = 32 * 1024
	switch c.Shape {
	case "straddle32k":
		for _, d := range []int{-20, -11, -10, -9, -1, 0, 1, 5} {
			s = append(s, K32+d)
		}
		s = append(s, 0, 1, K32*2-9, K32*2, 3)
	case "varint-edges":
		// ENCODED message lengths on both sides of every length-prefix size step (1|2|3|4 bytes of uvarint)
		for _, t := range []int{127, 128, 129, 3, 16383, 16384, 16385, 1, 2097151, 2097152, 2097153, 128, 16384} {
			s = append(s, encTarget+t)
		}
	case "growth":
		// lengths straddling the power-of-two growth steps, large then small
		for _, p := range []int{1 << 15, 1 << 16, 1 << 17, 1 << 18, 1 << 20} {
			s = append(s, p-12, p-10, p, p+1, 7)
		}
	case "big":
		s = []int{0, 4*1024*1024 + 17, 1, 4 * 1024 * 1024, 100, 4*1024*1024 + 1, 0, 5}
	case "delayed-big":
		// more than 16 MiB between a save request and the moment its checkpoint is popped
		s = []int{10, 4 << 20, 4 << 20, 4<<20 + 5, 7, 4 << 20, 4<<20 - 3, 4 << 20, 10, 20}
	case "tiny":
		n := 5 + r.Intn(30)
		for i := 0; i < n; i++ {
			s = append(s, r.Pick(0, 0, 1, 2, 126, 127, 128, 129, 300, 16383, 16384, 16385, -1))
		}
		if r.Intn(2) == 0 {
			s = append(s, -1) // the stream ends with an empty message
		}
	default:
		n := 4 + r.Intn(14)
		for i := 0; i < n; i++ {
			s = append(s, r.Pick(0, 1, r.Intn(200), r.Intn(70000), K32-9, K32-10, K32, r.Intn(300000), -1))
		}
		if r.Intn(3) == 0 {
			s = append(s, -1)
		}
	}
	return s
}

// c13Write writes magic, header, then the messages through the (optionally compressed) wire.
func c13Write(comp Comp, msgs []*pwr.SyncOp) ([]byte, error) {
	var buf bytes.Buffer
	raw := wire.NewWriteContext(&buf)
	if err := raw.WriteMagic(pwr.PatchMagic); err != nil {
		return nil, err
	}
	if err := raw.WriteMessage(&pwr.PatchHeader{Compression: comp.settings()}); err != nil {
		return nil, err
	}
	w, err := pwr.CompressWire(raw, comp.settings())
	if err != nil {
		return nil, err
	}
	for _, m := range msgs {
		if err := w.WriteMessage(m); err != nil {
			return nil, err
		}
	}
	if err := w.Close(); err != nil {
		return nil, err
	}
	return buf.Bytes(), nil
}

// c13Open opens a reader over the stream the way patcher.New does.
func c13Open(stream []byte) (*wire.ReadContext, error) {
	src := bytesSourceUnresumed(stream)
	if _, err := src.Resume(nil); err != nil {
		return nil, err
	}
	raw := wire.NewReadContext(src)
	if err := raw.ExpectMagic(pwr.PatchMagic); err != nil {
		return nil, err
	}
	hdr := &pwr.PatchHeader{}
	if err := raw.ReadMessage(hdr); err != nil {
		return nil, err
	}
	return pwr.DecompressWire(raw, hdr.Compression)
}

func sameMsg(a, b *pwr.SyncOp) bool {
	return a.Type == b.Type && a.FileIndex == b.FileIndex && a.BlockIndex == b.BlockIndex && a.BlockSpan == b.BlockSpan && bytes.Equal(a.Data, b.Data)
}

func c13One(env *Env, m *wvlib.Model, c *C13Case) {
	if c.Shape == "proto" {
		c13Proto(env, m, c)
		return
	}
	sizes := c.Sizes
	if sizes == nil {
		sizes = c13Sizes(c)
	}
	if env.Replay != "" {
		fmt.Printf("sizes: %v\n", sizes)
	}
	r := wvlib.NewRng(c.Seed ^ 0xc13)
	msgs := make([]*pwr.SyncOp, len(sizes))
	lens := make([]string, len(sizes))
	for i, n := range sizes {
		if n >= encTarget {
			if n-encTarget < 8 {
				msgs[i] = &pwr.SyncOp{Type: pwr.SyncOp_DATA, Data: r.Bytes(n - encTarget)}
			} else {
				msgs[i] = dataOpOfEncodedLen(r, n-encTarget, int64(i%3))
			}
			b, _ := proto.Marshal(msgs[i])
			lens[i] = fmt.Sprint(len(b))
			continue
		}
		if n < 0 {
			// a message whose encoding is empty (all fields zero): only its length prefix is on the wire
			msgs[i] = &pwr.SyncOp{}
			lens[i] = "0"
			continue
		}
		msgs[i] = &pwr.SyncOp{Type: pwr.SyncOp_DATA, Data: r.Bytes(n), FileIndex: int64(i)}
		if i%5 == 4 {
			msgs[i] = &pwr.SyncOp{Type: pwr.SyncOp_BLOCK_RANGE, FileIndex: int64(n), BlockIndex: int64(i), BlockSpan: 3}
		}
		b, _ := proto.Marshal(msgs[i])
		lens[i] = fmt.Sprint(len(b))
	}
	stream, err := c13Write(c.Comp, msgs)
	if err != nil {
		env.R.Violate("write-error:"+c.Comp.Algo, err.Error(), c)
		return
	}
	// (a) read everything back, then a clean end of stream
	rctx, err := c13Open(stream)
	if err != nil {
		env.R.Violate("open-error:"+c.Comp.Algo, err.Error(), c)
		return
	}
	for i := range msgs {
		got := &pwr.SyncOp{}
		if err := rctx.ReadMessage(got); err != nil {
			env.R.Violate("read-error:"+c.Comp.Algo, fmt.Sprintf("message %d: %v", i, err), c)
			return
		}
		if !sameMsg(got, msgs[i]) {
			env.R.Violate("message-altered:"+c.Comp.Algo, fmt.Sprintf("message %d differs after the round trip", i), c)
			return
		}
	}
	if err := rctx.ReadMessage(&pwr.SyncOp{}); errors.Cause(err) != io.EOF {
		env.R.Violate("no-clean-eof:"+c.Comp.Algo, fmt.Sprintf("after the last message: %v", err), c)
	}
	// (a') the same again into ONE message value, the way the patcher and the bsdiff reader reuse theirs: what a
	// read delivers may not depend on what the value held before
	if rc1, err := c13Open(stream); err == nil {
		reused := &pwr.SyncOp{}
		for i := range msgs {
			if err := rc1.ReadMessage(reused); err != nil {
				env.R.Violate("read-error:"+c.Comp.Algo, fmt.Sprintf("message %d into a reused value: %v", i, err), c)
				break
			}
			if !sameMsg(reused, msgs[i]) {
				env.R.Violate("message-altered:reused-value:"+c.Comp.Algo, fmt.Sprintf("message %d read into a reused value differs after the round trip", i), c)
				break
			}
		}
		env.R.Count("reads-into-reused-value", int64(len(msgs)))
	}
	// model: frame offsets
	offs, merr := m.Ask("c13 " + strings.Join(lens, ","))
	var modelOff []int64
	if merr == nil {
		for _, t := range strings.Split(offs, ",") {
			var x int64
			fmt.Sscan(t, &x)
			modelOff = append(modelOff, x)
		}
	}
	verifyResume := func(ck *wire.MessageReaderCheckpoint, popIdx int) {
		// serialise like a real consumer would
		var gb bytes.Buffer
		if err := gob.NewEncoder(&gb).Encode(ck); err != nil {
			env.R.Violate("checkpoint-not-serialisable:"+c.Comp.Algo, err.Error(), c)
			return
		}
		ck2 := &wire.MessageReaderCheckpoint{}
		if err := gob.NewDecoder(&gb).Decode(ck2); err != nil {
			env.R.Violate("checkpoint-not-deserialisable:"+c.Comp.Algo, err.Error(), c)
			return
		}
		if modelOff != nil && popIdx-1 < len(modelOff) && ck2.Offset != modelOff[popIdx-1] {
			env.R.Disagree(c, fmt.Sprintf("checkpoint after %d messages has offset %d", popIdx, ck2.Offset), fmt.Sprintf("frame boundary %d is at %d", popIdx, modelOff[popIdx-1]), "see violations")
		}
		rc2, err := c13Open(stream)
		if err != nil {
			env.R.Violate("open-error:"+c.Comp.Algo, err.Error(), c)
			return
		}
		if err := rc2.Resume(ck2); err != nil {
			env.R.Violate("resume-fails:"+c.Comp.Algo, fmt.Sprintf("checkpoint after message %d: %v", popIdx, err), c)
			return
		}
		ok := true
		for i := popIdx; i < len(msgs); i++ {
			got := &pwr.SyncOp{}
			if err := rc2.ReadMessage(got); err != nil || !sameMsg(got, msgs[i]) {
				env.R.Violate("resume-not-exact:"+c.Comp.Algo, fmt.Sprintf("resumed after message %d: message %d wrong (%v)", popIdx, i, err), c)
				ok = false
				break
			}
		}
		if ok {
			if err := rc2.ReadMessage(&pwr.SyncOp{}); errors.Cause(err) != io.EOF {
				env.R.Violate("resume-no-clean-eof:"+c.Comp.Algo, fmt.Sprintf("%v", err), c)
			}
		}
	}
	// (b) request a save at every message boundary; resume from every popped checkpoint
	popped := 0
	for p := 0; p < len(msgs); p++ {
		rc, err := c13Open(stream)
		if err != nil {
			env.R.Violate("open-error:"+c.Comp.Algo, err.Error(), c)
			return
		}
		var ck *wire.MessageReaderCheckpoint
		popIdx := -1
		for i := 0; i < len(msgs); i++ {
			if i >= p {
				rc.WantSave()
			}
			if err := rc.ReadMessage(&pwr.SyncOp{}); err != nil {
				env.R.Violate("read-error-with-save:"+c.Comp.Algo, fmt.Sprintf("message %d: %v", i, err), c)
				return
			}
			if i >= p {
				if ck = rc.PopCheckpoint(); ck != nil {
					popIdx = i + 1
					if again := rc.PopCheckpoint(); again != nil {
						env.R.Violate("checkpoint-popped-twice", fmt.Sprintf("after message %d", i), c)
					}
					break
				}
			}
		}
		if ck == nil {
			env.R.Count("no-checkpoint-offered:"+c.Comp.Algo, 1)
			continue
		}
		popped++
		verifyResume(ck, popIdx)
	}
	// (c) ONE save request, the checkpoint popped only several messages later: the reader's offset is then far ahead
	// of the point the source restarts from, and Resume has to discard everything in between
	for _, p := range []int{0, 1, len(msgs) / 2} {
		for _, delay := range []int{1, 3, len(msgs) - 3, len(msgs)} {
			if p >= len(msgs) || delay < 1 {
				continue
			}
			rc, err := c13Open(stream)
			if err != nil {
				return
			}
			var ck *wire.MessageReaderCheckpoint
			popIdx := -1
			for i := 0; i < len(msgs); i++ {
				if i == p {
					rc.WantSave()
				}
				if err := rc.ReadMessage(&pwr.SyncOp{}); err != nil {
					env.R.Violate("read-error-with-save:"+c.Comp.Algo, fmt.Sprintf("message %d: %v", i, err), c)
					return
				}
				if i >= p+delay || i == len(msgs)-1 {
					if ck = rc.PopCheckpoint(); ck != nil {
						popIdx = i + 1
						break
					}
				}
			}
			if ck == nil {
				continue
			}
			env.R.Count("delayed-pop-resumes", 1)
			verifyResume(ck, popIdx)
		}
	}
	// (d) the SAME reader is rewound with Resume while a save is in flight (requested, delivered by the source, not
	// popped): the stale source checkpoint must not be paired with the rewound offset
	if len(msgs) >= 4 {
		rc, err := c13Open(stream)
		if err == nil {
			var early *wire.MessageReaderCheckpoint
			e := -1
			i := 0
			for ; i < len(msgs) && early == nil; i++ {
				rc.WantSave()
				if rc.ReadMessage(&pwr.SyncOp{}) != nil {
					break
				}
				if early = rc.PopCheckpoint(); early != nil {
					e = i + 1
				}
			}
			if early != nil && e+2 <= len(msgs) {
				// a second save is requested and left unpopped while more messages are read
				rc.WantSave()
				for k := 0; k < 2 && i < len(msgs); k, i = k+1, i+1 {
					rc.ReadMessage(&pwr.SyncOp{})
				}
				var gb bytes.Buffer
				gob.NewEncoder(&gb).Encode(early)
				back := &wire.MessageReaderCheckpoint{}
				gob.NewDecoder(&gb).Decode(back)
				if err := rc.Resume(back); err != nil {
					env.R.Violate("rewind-fails:"+c.Comp.Algo, fmt.Sprintf("Resume on the same reader to the checkpoint after message %d: %v", e, err), c)
				} else {
					got := &pwr.SyncOp{}
					if err := rc.ReadMessage(got); err != nil || !sameMsg(got, msgs[e]) {
						env.R.Violate("rewind-not-exact:"+c.Comp.Algo, fmt.Sprintf("after rewinding to message %d: %v", e, err), c)
					} else {
						if ck := rc.PopCheckpoint(); ck != nil {
							// whatever is popped now must be a checkpoint for THIS position
							verifyResume(ck, e+1)
						}
						// and the save protocol still works after the rewind
						for j := e + 1; j < len(msgs); j++ {
							rc.WantSave()
							if rc.ReadMessage(&pwr.SyncOp{}) != nil {
								break
							}
							if ck := rc.PopCheckpoint(); ck != nil {
								verifyResume(ck, j+1)
								break
							}
						}
						env.R.Count("same-reader-rewinds", 1)
					}
				}
			}
		}
	}
	// the uncompressed inner stream parses to the same bodies in the model
	if c.Comp.Algo == "none" && len(stream) < 3_000_000 {
		// skip magic + header frame
		hdrLen := int(stream[4]) + 1 // header is tiny: one-byte length prefix
		inner := stream[4+hdrLen:]
		tok, clean := env.Scratch.Tok(inner)
		ans, err := m.Ask("c13parse " + tok)
		clean()
		var want []string
		for i := range msgs {
			b, _ := proto.Marshal(msgs[i])
			want = append(want, fmt.Sprintf("%d %d", len(b), wvlib.Fnv(b)))
		}
		if err != nil || ans != "ok "+strings.Join(want, ";") {
			env.R.Disagree(c, "bodies "+trunc(strings.Join(want, ";"), 300), trunc(ans, 300), "n/a")
		}
	}
	env.R.Eval(c.Seed^uint64(len(c.Comp.Algo))<<32^uint64(c.Comp.Quality+5)<<40, popped > 0)
	env.R.Count("comp:"+c.Comp.String(), 1)
	env.R.Count("checkpoints-resumed:"+c.Comp.Algo, int64(popped))
	env.R.Count("shape:"+c.Shape, 1)
}

func runC13(env *Env) {
	R := env.R
	R.Rule = "message sequences (sizes 0 .. > 4 MiB, messages with an empty encoding incl. as the last one, encoded lengths on both sides of every uvarint prefix step (127/128, 16383/16384, 2097151/2097152), lengths straddling 32 KiB and the power-of-two growth steps, large then small) x {none, gzip -2..9, brotli 0..9}; a save is requested at every message boundary - and, separately, once with the checkpoint popped several messages (up to > 16 MiB) later -, every popped checkpoint is gob-serialised and resumed in a new reader; the same reader is also rewound with Resume while a save is in flight over the same bytes; distinct by (seed, compression); non-trivial = at least one checkpoint was popped and resumed"
	if env.Replay != "" {
		var c C13Case
		replayCase(env, &c)
		m, _ := wvlib.StartModel()
		defer m.Close()
		c13One(env, m, &c)
		printOutcome(env)
		return
	}
	var comps []Comp
	if env.Thorough() {
		comps = append(comps, Comp{"none", 0})
		for q := -2; q <= 9; q++ {
			comps = append(comps, Comp{"gzip", q})
		}
		for q := 0; q <= 9; q++ {
			comps = append(comps, Comp{"brotli", q})
		}
	} else {
		comps = []Comp{{"none", 0}, {"gzip", -2}, {"gzip", 0}, {"gzip", 1}, {"gzip", 9}, {"brotli", 0}, {"brotli", 1}, {"brotli", 5}, {"brotli", 9}}
	}
	nSeq := 8
	if env.Thorough() {
		nSeq = 40
	}
	rng := wvlib.NewRng(env.Seed)
	shapes := []string{"straddle32k", "growth", "tiny", "random", "big", "random", "varint-edges", "delayed-big"}
	var cases []*C13Case
	for i := 0; i < nSeq; i++ {
		seed := rng.Next()
		for _, comp := range comps {
			sh := shapes[i%len(shapes)]
			if sh == "big" && comp.Algo == "brotli" && comp.Quality > 5 && !env.Thorough() {
				continue
			}
			if sh == "delayed-big" && !(comp.Quality <= 1 && comp.Quality >= 0) {
				continue
			}
			cases = append(cases, &C13Case{Seed: seed, Comp: comp, Shape: sh})
		}
	}
	nProto := 60
	if env.Thorough() {
		nProto = 1500
	}
	for i := 0; i < nProto; i++ {
		cases = append(cases, &C13Case{Seed: rng.Next(), Comp: Comp{"none", 0}, Shape: "proto"})
	}
	models := startModels(env)
	wvlib.ParallelDo(len(cases), env.Workers, func(i int) {
		m := <-models
		defer func() { models <- m }()
		c13One(env, m, cases[i])
		if i < 3 {
			R.Sample(cases[i])
		}
	})
	stopModels(env, models)
}
