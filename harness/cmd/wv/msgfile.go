package main

import (
	"encoding/hex"
	"fmt"
	"os"
	"path/filepath"
	"strings"
	"sync/atomic"

	"github.com/itchio/lake/tlc"

	"wv/internal/wvlib"
)

var msgFileN int64

func hx(b []byte) string {
	if len(b) == 0 {
		return "-"
	}
	return hex.EncodeToString(b)
}

// writeMsgFile stores messages in the text format the model driver reads.
func writeMsgFile(sc *wvlib.Scratch, msgs []PMsg) (string, func()) {
	var sb strings.Builder
	for _, m := range msgs {
		switch m.Kind {
		case "H":
			fmt.Fprintf(&sb, "H %d %d\n", m.A, m.B)
		case "O":
			fmt.Fprintf(&sb, "O %d %d %d %d %s\n", m.A, m.B, m.C, m.D, hx(m.Data))
		case "B":
			fmt.Fprintf(&sb, "B %d\n", m.A)
		case "C":
			e := 0
			if m.Eof {
				e = 1
			}
			fmt.Fprintf(&sb, "C %s %s %d %d\n", hx(m.Data), hx(m.Data2), m.A, e)
		}
	}
	n := atomic.AddInt64(&msgFileN, 1)
	p := filepath.Join(sc.Dir, fmt.Sprintf("msgs%d.txt", n))
	if err := os.WriteFile(p, []byte(sb.String()), 0o644); err != nil {
		panic(err)
	}
	return p, func() { os.Remove(p) }
}

// oldFilesArgs renders `<n> (path tok)*` for the files of a container read from dir.
func filesArgs(sc *wvlib.Scratch, c *tlc.Container, dir string) (string, func()) {
	var sb strings.Builder
	var cleans []func()
	fmt.Fprintf(&sb, "%d", len(c.Files))
	for _, f := range c.Files {
		data, err := os.ReadFile(dir + "/" + f.Path)
		if err != nil {
			data = nil
		}
		if len(data) <= 256 {
			t, cl := sc.Tok(data)
			cleans = append(cleans, cl)
			fmt.Fprintf(&sb, " %s %s", f.Path, t)
		} else {
			fmt.Fprintf(&sb, " %s f:%s/%s", f.Path, dir, f.Path)
		}
	}
	return sb.String(), func() {
		for _, c := range cleans {
			c()
		}
	}
}

func pathSizeArgs(c *tlc.Container) string {
	var sb strings.Builder
	fmt.Fprintf(&sb, "%d", len(c.Files))
	for _, f := range c.Files {
		fmt.Fprintf(&sb, " %s %d", f.Path, f.Size)
	}
	return sb.String()
}

func sizesCSV(c *tlc.Container) string {
	if len(c.Files) == 0 {
		return "-"
	}
	s := make([]string, len(c.Files))
	for i, f := range c.Files {
		s[i] = fmt.Sprint(f.Size)
	}
	return strings.Join(s, ",")
}
