package main

import (
	"bytes"
	"encoding/json"
	"fmt"
	"os"
	"sort"
	"strings"
	"time"

	"github.com/itchio/lake/pools/fspool"
	"github.com/itchio/wharf/pwr/rediff"

	"wv/internal/wvlib"
)

func init() { runners["C07"] = runC07 }

type C07Case struct {
	PairCase
	Partitions int   `json:"partitions"`
	Conc       int   `json:"conc"`
	Force      bool  `json:"force"`
	Limit      int64 `json:"limit"`
	OutComp    Comp  `json:"outcomp"`
	Ties       bool  `json:"ties"` // new files made of equally many blocks of several differently named old files
	Tiny       bool  `json:"tiny"` // overwrite the pair with tiny files (0..16 bytes, fewer bytes than partitions)
	InPlace    bool  `json:"inplace"`
}

type optResult struct {
	patch    []byte
	mappings string
	err      string
}

// optimizeReal runs the real optimizer, recovering panics.
func init() {
	childHandlers["C07"] = c07Child
}

// c07Child: `<patchfile> <oldDir> <newDir> <case json>` -> "ok" | "err <msg>". The optimizer starts goroutines of its
// own (suffix sort, scan workers); a panic there cannot be recovered and kills the process, so every case is
// first tried in an isolated child.
func c07Child(line string) string {
	f := strings.SplitN(line, " ", 4)
	if len(f) != 4 {
		return "err bad request"
	}
	patch, err := os.ReadFile(f[0])
	if err != nil {
		return "err " + err.Error()
	}
	c := &C07Case{}
	if err := json.Unmarshal([]byte(f[3]), c); err != nil {
		return "err " + err.Error()
	}
	oldC, newC, _, derr := decodePatch(patch)
	if derr != nil {
		return "err " + derr.Error()
	}
	o := optimizeReal(patch, f[1], f[2], c, &DiffResult{Old: oldC, New: newC})
	if o.err != "" {
		return "err " + o.err
	}
	return "ok"
}

var c07Children chan *wvlib.Child

func optimizeReal(patch []byte, oldDir, newDir string, c *C07Case, res *DiffResult) (o optResult) {
	defer func() {
		if r := recover(); r != nil {
			o.err = fmt.Sprintf("PANIC %v", r)
		}
	}()
	outComp := c.OutComp.settings()
	if c.OutComp.Algo == "default" {
		outComp = nil // the optimizer's own default (brotli q9)
	}
	rc, err := rediff.NewContext(rediff.Params{
		PatchReader: bytesSourceUnresumed(patch), Partitions: c.Partitions, SuffixSortConcurrency: c.Conc,
		ForceMapAll: c.Force, RediffSizeLimit: c.Limit, Compression: outComp, Consumer: quietConsumer,
	})
	if err != nil {
		o.err = "ERR " + err.Error()
		return
	}
	dm := rc.GetDiffMappings()
	ms := make([]string, len(res.New.Files))
	for i := range ms {
		ms[i] = "-"
		if m, ok := dm[int64(i)]; ok {
			ms[i] = fmt.Sprintf("%d:%d", m.TargetIndex, m.NumBytes)
		}
	}
	o.mappings = strings.Join(ms, ",")
	var out bytes.Buffer
	err = rc.Optimize(rediff.OptimizeParams{TargetPool: fspool.New(res.Old, oldDir), SourcePool: fspool.New(res.New, newDir), PatchWriter: &out})
	if err != nil {
		o.err = "ERR " + err.Error()
		return
	}
	o.patch = out.Bytes()
	return
}

func tinyPair(r *wvlib.Rng) (*wvlib.Build, *wvlib.Build) {
	old, nw := &wvlib.Build{}, &wvlib.Build{}
	n := 1 + r.Intn(4)
	sz := func() int { return r.Pick(0, 1, 2, 3, 5, 9, 16, 17, 33, 40, r.Intn(300)) }
	for i := 0; i < n; i++ {
		p := fmt.Sprintf("t%d.bin", i)
		od := r.SmallAlpha(sz(), 3)
		old.Entries = append(old.Entries, wvlib.BEntry{Path: p, Kind: 'f', Data: od})
		switch r.Intn(5) {
		case 0:
			nw.Entries = append(nw.Entries, wvlib.BEntry{Path: p, Kind: 'f', Data: r.SmallAlpha(sz(), 3)})
		case 1:
			d, _ := wvlib.Edit(r, od, 1)
			if len(d) > 400 {
				d = d[:400]
			}
			nw.Entries = append(nw.Entries, wvlib.BEntry{Path: p, Kind: 'f', Data: d})
		case 2:
			nw.Entries = append(nw.Entries, wvlib.BEntry{Path: fmt.Sprintf("moved%d.bin", i), Kind: 'f', Data: od})
		case 3:
			nw.Entries = append(nw.Entries, wvlib.BEntry{Path: p, Kind: 'f', Data: od})
		}
	}
	if r.Bool() {
		nw.Entries = append(nw.Entries, wvlib.BEntry{Path: "fresh.bin", Kind: 'f', Data: r.SmallAlpha(sz(), 3)})
	}
	old.Normalize()
	nw.Normalize()
	return old, nw
}

// tiesPair: every new file takes the same number of blocks from two or three old files of other names.
func tiesPair(r *wvlib.Rng) (*wvlib.Build, *wvlib.Build) {
	old, nw := &wvlib.Build{}, &wvlib.Build{}
	n := 2 + r.Intn(3)
	for i := 0; i < n; i++ {
		old.Entries = append(old.Entries, wvlib.BEntry{Path: fmt.Sprintf("src%d.bin", i), Kind: 'f', Data: r.Bytes(wvlib.BS * (1 + r.Intn(2)))})
	}
	for j := 0; j < 1+r.Intn(2); j++ {
		var d []byte
		perm := []int{0, 1, 2, 3}[:n]
		for k := len(perm) - 1; k > 0; k-- {
			q := r.Intn(k + 1)
			perm[k], perm[q] = perm[q], perm[k]
		}
		for _, i := range perm[:2+r.Intn(n-1)] {
			d = append(d, old.Entries[i].Data[:wvlib.BS]...)
		}
		d = append(d, r.Bytes(1+r.Intn(100))...)
		nw.Entries = append(nw.Entries, wvlib.BEntry{Path: fmt.Sprintf("mix%d.bin", j), Kind: 'f', Data: d})
	}
	old.Normalize()
	nw.Normalize()
	return old, nw
}

func c07One(env *Env, m *wvlib.Model, c *C07Case) {
	var old, nw *wvlib.Build
	if c.Ties {
		old, nw = tiesPair(wvlib.NewRng(c.Seed))
	} else if c.Tiny {
		old, nw = tinyPair(wvlib.NewRng(c.Seed))
	} else {
		old, nw = c.gen()
	}
	base, od, nd, clean := writePair(env.Scratch, old, nw)
	defer clean()
	res, err := diffDirs(od, nd, Comp{"none", 0}, nil)
	if err != nil {
		env.R.Violate("diff-error", err.Error(), c)
		return
	}
	if c07Children != nil {
		ch := <-c07Children
		pf := base + "/probe.pwr"
		os.WriteFile(pf, res.Patch, 0o644)
		cj, _ := json.Marshal(c)
		_, crashed, diag := ch.Ask(fmt.Sprintf("%s %s %s %s", pf, od, nd, cj), 60*time.Second)
		c07Children <- ch
		if crashed {
			cls := "optimizer-crash"
			if strings.Contains(diag, "hang") {
				cls = "optimizer-hang"
			}
			env.R.Violate(cls, "the optimizer killed (or hung) the process: "+diag, c)
			return
		}
	}
	o := optimizeReal(res.Patch, od, nd, c, res)
	if o.err != "" {
		cls := "optimizer-error"
		if strings.HasPrefix(o.err, "PANIC") {
			cls = "optimizer-panic"
			if strings.Contains(o.err, "divide by zero") {
				cls = "optimizer-panic:divide-by-zero"
			}
		}
		env.R.Violate(cls, o.err, c)
		return
	}
	// determinism of the mapping choice: repeat the analysis a few times (Go map order varies)
	for k := 0; k < 4; k++ {
		o2 := optimizeReal(res.Patch, od, nd, c, res)
		if o2.mappings != o.mappings {
			env.R.Violate("mapping-depends-on-map-order", fmt.Sprintf("%s vs %s", o.mappings, o2.mappings), c)
			break
		}
	}
	// model: mapping choice always; exact optimized messages when every file is small
	_, _, msgs, _ := decodePatch(res.Patch)
	mf, cl := writeMsgFile(env.Scratch, msgs)
	defer cl()
	lim := c.Limit
	if lim == 0 {
		lim = rediff.DefaultRediffSizeLimit
	}
	force := 0
	if c.Force {
		force = 1
	}
	ans, merr := m.Ask(fmt.Sprintf("analyze %d %d %d %s %s %s", wvlib.BS, lim, force, mf, pathSizeArgs(res.Old), pathSizeArgs(res.New)))
	if merr != nil {
		env.R.Disagree(c, o.mappings, "MODEL-DIED", "n/a")
	} else if ans != o.mappings {
		env.R.Disagree(c, "mappings "+o.mappings, "mappings "+ans, "see violations")
	}
	small := true
	for _, f := range res.Old.Files {
		if f.Size > 1200 {
			small = false
		}
	}
	for _, f := range res.New.Files {
		if f.Size > 1200 {
			small = false
		}
	}
	_, _, omsgs, derr := decodePatch(o.patch)
	if derr != nil {
		env.R.Violate("optimized-patch-unreadable", derr.Error(), c)
		return
	}
	if small {
		oa, c1 := filesArgs(env.Scratch, res.Old, od)
		na, c2 := filesArgs(env.Scratch, res.New, nd)
		ans, merr := m.Ask(fmt.Sprintf("optimize %d %d %d %d %s %s %s", wvlib.BS, lim, force, c.Partitions, mf, oa, na))
		c1()
		c2()
		impl := canonMsgs(omsgs)
		if merr != nil {
			env.R.Disagree(c, trunc(impl, 300), "MODEL-DIED", "n/a")
		} else if ans != impl {
			env.R.Disagree(c, "optimized: "+firstDiffContext(impl, ans), "optimized: "+firstDiffContext(ans, impl), "see violations")
		}
		env.R.Count("exact-optimized-messages-compared", 1)
	}
	// oracle: the optimized patch applies to the old build with the same result as the original, i.e. the new build
	out := base + "/out"
	if c.InPlace {
		// in place: copy old to a work dir and commit onto it
		if err := old.Write(out); err != nil {
			panic(err)
		}
		if aerr := applyOverlay(o.patch, out, base+"/stage", nil); aerr != nil {
			env.R.Violate("optimized-apply-error:inplace", aerr.Error(), c)
			return
		}
	} else if _, aerr := applyFresh(o.patch, od, out, nil, nil); aerr != nil {
		cls := "optimized-apply-error"
		if strings.HasPrefix(aerr.Error(), "PANIC") {
			cls = "optimized-apply-panic"
		}
		env.R.Violate(cls, aerr.Error(), c)
		return
	}
	got, rerr := wvlib.ReadTree(out)
	if rerr != nil {
		env.R.Violate("output-unreadable", rerr.Error(), c)
	} else if d := wvlib.DiffTrees(got, nw); d != "" {
		env.R.Violate("optimized-tree-differs", d, c)
	}
	os.RemoveAll(out)
	nb := strings.Count(canonMsgs(omsgs), "B ")
	env.R.Eval(c.Seed, nb > 0)
	env.R.Count(fmt.Sprintf("partitions=%d", c.Partitions), 1)
	if nb > 0 {
		env.R.Count("has-bsdiff-series", 1)
	}
	if c.Force {
		env.R.Count("force-map-all", 1)
	}
	if c.Tiny {
		env.R.Count("tiny-files", 1)
	}
	if c.Ties {
		env.R.Count("tie-candidates", 1)
	}
	if c.InPlace {
		env.R.Count("in-place", 1)
	}
}

func runC07(env *Env) {
	R := env.R
	R.Rule = "random build pairs (relation generator) and tiny-file pairs (0..16 bytes, fewer bytes than partitions, empty old files) x partitions 0..16 x suffix-sort concurrency x ForceMapAll x size limits x output compression x {fresh, in place}; distinct by seed; non-trivial = the optimized patch contains at least one bsdiff series"
	if env.Replay != "" {
		var c C07Case
		replayCase(env, &c)
		m, _ := wvlib.StartModel()
		defer m.Close()
		c07Children = make(chan *wvlib.Child, 1)
		if ch, err := wvlib.StartChild("C07"); err == nil {
			c07Children <- ch
			defer ch.Close()
		} else {
			c07Children = nil
		}
		c07One(env, m, &c)
		printOutcome(env)
		return
	}
	n := 160
	if env.Thorough() {
		n = 4000
	}
	rng := wvlib.NewRng(env.Seed)
	cases := make([]*C07Case, n)
	for i := range cases {
		c := &C07Case{PairCase: PairCase{Seed: rng.Next(), Opts: wvlib.PairOpts{MaxFiles: 5, SmallOnly: i%4 != 0, Symlinks: true}},
			Partitions: rng.Pick(0, 1, 2, 3, 8, 16, rng.Intn(17)), Conc: rng.Pick(0, 0, 1, 2, -1), Force: rng.Intn(3) == 0,
			OutComp: []Comp{{"none", 0}, {"gzip", 1}, {"brotli", 1}, {"none", 0}, {"default", 0}}[rng.Intn(5)], Tiny: i%2 == 1, InPlace: i%5 == 2, Ties: i%8 == 4}
		switch rng.Intn(6) {
		case 0:
			c.Limit = int64(rng.Pick(1, 100, wvlib.BS, 2*wvlib.BS))
		}
		cases[i] = c
	}
	for _, raw := range corpusCases(env, "C07") {
		c := &C07Case{}
		if json.Unmarshal(raw, c) == nil {
			cases = append([]*C07Case{c}, cases...)
		}
	}
	n = len(cases)
	c07Children = make(chan *wvlib.Child, env.Workers)
	for k := 0; k < env.Workers; k++ {
		if ch, err := wvlib.StartChild("C07"); err == nil {
			c07Children <- ch
		}
	}
	defer func() {
		close(c07Children)
		for ch := range c07Children {
			ch.Close()
		}
	}()
	models := startModels(env)
	wvlib.ParallelDo(n, env.Workers, func(i int) {
		m := <-models
		defer func() { models <- m }()
		c07One(env, m, cases[i])
		if i < 3 {
			R.Sample(cases[i])
		}
	})
	stopModels(env, models)
	keys := make([]string, 0)
	for k := range R.Distribution {
		keys = append(keys, k)
	}
	sort.Strings(keys)
}
