package main

import (
	"bytes"
	"context"
	"fmt"
	"os"
	"sort"
	"strings"

	"github.com/itchio/lake/pools/fspool"
	"github.com/itchio/lake/tlc"
	"github.com/itchio/wharf/pwr"
	"github.com/itchio/wharf/wire"

	"wv/internal/wvlib"
)

func init() { runners["C05"] = runC05 }

type C05Case struct {
	Seed   uint64           `json:"seed"`
	Opts   wvlib.PairOpts   `json:"opts"`
	Dmg    wvlib.DamageOpts `json:"damage_opts"`
	Damage []string         `json:"damage,omitempty"`
}

// signBuild materialises b and returns its directory, container and signature.
func signBuild(dir string, b *wvlib.Build) (*pwr.SignatureInfo, error) {
	if err := b.Write(dir); err != nil {
		return nil, err
	}
	c, err := tlc.WalkAny(dir, tlc.WalkOpts{})
	if err != nil {
		return nil, err
	}
	h, err := pwr.ComputeSignature(context.Background(), c, fspool.New(c, dir), quietConsumer)
	if err != nil {
		return nil, err
	}
	return &pwr.SignatureInfo{Container: c, Hashes: h}, nil
}

// writeSignedListing writes the signed build in container order for the model.
func writeSignedListing(path string, c *tlc.Container, b *wvlib.Build, sc *wvlib.Scratch) {
	var sb strings.Builder
	for _, d := range c.Dirs {
		fmt.Fprintf(&sb, "d %s\n", d.Path)
	}
	for i, f := range c.Files {
		e := b.Find(f.Path)
		if e == nil {
			e = &wvlib.BEntry{}
		}
		tok := ""
		if len(e.Data) <= 256 {
			tok = fmt.Sprintf("x:%x", e.Data)
		} else {
			p := fmt.Sprintf("%s.f%d", path, i)
			os.WriteFile(p, e.Data, 0o644)
			tok = "f:" + p
		}
		fmt.Fprintf(&sb, "f %s %s\n", f.Path, tok)
	}
	for _, l := range c.Symlinks {
		fmt.Fprintf(&sb, "l %s %s\n", l.Path, l.Dest)
	}
	os.WriteFile(path, []byte(sb.String()), 0o644)
}

// writeDiskListing writes an arbitrary tree for the model.
func writeDiskListing(path string, b *wvlib.Build) {
	var sb strings.Builder
	for i, e := range b.Entries {
		switch e.Kind {
		case 'd':
			fmt.Fprintf(&sb, "d %s\n", e.Path)
		case 'l':
			fmt.Fprintf(&sb, "l %s %s\n", e.Path, e.Dest)
		case 'f':
			if len(e.Data) <= 256 {
				fmt.Fprintf(&sb, "f %s x:%x\n", e.Path, e.Data)
			} else {
				p := fmt.Sprintf("%s.d%d", path, i)
				os.WriteFile(p, e.Data, 0o644)
				fmt.Fprintf(&sb, "f %s f:%s\n", e.Path, p)
			}
		}
	}
	os.WriteFile(path, []byte(sb.String()), 0o644)
}

// readWounds decodes a wounds file with the real reader.
func readWounds(path string) ([]*pwr.Wound, error) {
	data, err := os.ReadFile(path)
	if err != nil {
		if os.IsNotExist(err) {
			return nil, nil
		}
		return nil, err
	}
	rc := wire.NewReadContext(bytesSource(data))
	if err := rc.ExpectMagic(pwr.WoundsMagic); err != nil {
		return nil, err
	}
	if err := rc.ReadMessage(&pwr.WoundsHeader{}); err != nil {
		return nil, err
	}
	if err := rc.ReadMessage(&tlc.Container{}); err != nil {
		return nil, err
	}
	var ws []*pwr.Wound
	for {
		w := &pwr.Wound{}
		if err := rc.ReadMessage(w); err != nil {
			break
		}
		ws = append(ws, w)
	}
	return ws, nil
}

func woundKeyGo(w *pwr.Wound) string {
	k := "?"
	switch w.Kind {
	case pwr.WoundKind_FILE:
		k = "F"
	case pwr.WoundKind_DIR:
		k = "D"
	case pwr.WoundKind_SYMLINK:
		k = "L"
	case pwr.WoundKind_CLOSED_FILE:
		k = "H"
	}
	return fmt.Sprintf("%s %d %d %d", k, w.Index, w.Start, w.End)
}

func c05One(env *Env, m *wvlib.Model, c *C05Case) {
	r := wvlib.NewRng(c.Seed)
	b := wvlib.GenBuild(r, c.Opts)
	base := env.Scratch.Sub("c05")
	defer os.RemoveAll(base)
	sig, err := signBuild(base+"/signed", b)
	if err != nil {
		env.R.Note("sign: %v", err)
		return
	}
	dmg, desc := wvlib.Damage(r, b, c.Dmg)
	c.Damage = desc
	dd := base + "/disk"
	if err := dmg.Write(dd); err != nil {
		env.R.Note("materialising damage %v: %v", desc, err)
		return
	}
	disk, _ := wvlib.ReadTree(dd)
	same := wvlib.DiffTrees(disk, b) == ""
	// real validation: wounds file + fail-fast
	wp := base + "/wounds.pww"
	vctx := &pwr.ValidatorContext{WoundsPath: wp, Consumer: quietConsumer}
	verr := vctx.Validate(context.Background(), dd, sig)
	ws, rerr := readWounds(wp)
	if rerr != nil {
		env.R.Violate("wounds-file-unreadable", rerr.Error(), c)
		return
	}
	ferr := pwr.AssertValid(dd, sig)
	impl := "err"
	if verr == nil {
		keys := make([]string, len(ws))
		for i, w := range ws {
			keys[i] = woundKeyGo(w)
		}
		sort.Strings(keys)
		impl = "ok " + strings.Join(keys, ";")
	}
	// ---- oracle
	if !same {
		if verr == nil && len(ws) == 0 {
			env.R.Violate("deviation-not-reported", fmt.Sprintf("damage %v: no wound", desc), c)
		}
		if ferr == nil {
			env.R.Violate("fail-fast-declares-valid", fmt.Sprintf("damage %v: AssertValid returned nil", desc), c)
		}
	} else if verr != nil || len(ws) != 0 || ferr != nil {
		env.R.Violate("valid-tree-wounded", fmt.Sprintf("undamaged tree: err=%v wounds=%d failfast=%v", verr, len(ws), ferr), c)
	}
	if verr == nil {
		for _, w := range ws {
			switch w.Kind {
			case pwr.WoundKind_FILE:
				if w.Index < 0 || int(w.Index) >= len(sig.Container.Files) {
					env.R.Violate("wound-names-no-entry", woundKeyGo(w), c)
				}
			case pwr.WoundKind_DIR:
				if w.Index < 0 || int(w.Index) >= len(sig.Container.Dirs) {
					env.R.Violate("wound-names-no-entry", woundKeyGo(w), c)
				}
			case pwr.WoundKind_SYMLINK:
				if w.Index < 0 || int(w.Index) >= len(sig.Container.Symlinks) {
					env.R.Violate("wound-names-no-entry", woundKeyGo(w), c)
				}
			}
			if w.Start < 0 || w.Start > w.End {
				env.R.Violate("wound-malformed-range", fmt.Sprintf("%s (damage %v)", woundKeyGo(w), desc), c)
			}
		}
		// coverage: every differing offset below the signed length lies in a file wound; length mismatch => a wound
		for i, f := range sig.Container.Files {
			want := b.Find(f.Path).Data
			var got []byte
			present := false
			if e := disk.Find(f.Path); e != nil && e.Kind == 'f' {
				got, present = e.Data, true
			}
			covered := func(off int64) bool {
				for _, w := range ws {
					if w.Kind == pwr.WoundKind_FILE && w.Index == int64(i) && w.Start <= off && off < w.End {
						return true
					}
				}
				return false
			}
			hasWound := false
			for _, w := range ws {
				if w.Kind == pwr.WoundKind_FILE && w.Index == int64(i) {
					hasWound = true
				}
			}
			if !present || len(got) != len(want) {
				if !hasWound {
					env.R.Violate("length-or-missing-not-wounded", fmt.Sprintf("file %d %s (damage %v)", i, f.Path, desc), c)
				}
			}
			for off := 0; off < len(want); off++ {
				differs := !present || off >= len(got) || got[off] != want[off]
				if differs && !covered(int64(off)) {
					env.R.Violate("differing-offset-not-covered", fmt.Sprintf("file %d %s offset %d (damage %v)", i, f.Path, off, desc), c)
					break
				}
				if differs {
					// jump to the next block: one probe per block is enough and keeps the oracle linear
					off = (off/wvlib.BS+1)*wvlib.BS - 1
				}
			}
		}
	}
	// ---- model
	sl, dl := base+"/signed.lst", base+"/disk.lst"
	writeSignedListing(sl, sig.Container, b, env.Scratch)
	writeDiskListing(dl, disk)
	ans, merr := m.Ask(fmt.Sprintf("validate %d %d %s %s", wvlib.BS, pwr.MaxWoundSize, sl, dl))
	if merr != nil {
		env.R.Disagree(c, trunc(impl, 300), "MODEL-DIED", "n/a")
	} else if ans != impl {
		env.R.Disagree(c, trunc(impl, 600), trunc(ans, 600), fmt.Sprintf("damage %v", desc))
	}
	ffImpl := ferr == nil
	_ = ffImpl
	if c.Seed%4 == 0 {
		// the signature VALUE used above is used again after the build was updated in place (same sizes, so the same
		// container) and re-signed: its Hashes are replaced, once on a copy of the struct and once on the value itself
		b2 := b.Clone()
		changed := false
		for i := range b2.Entries {
			if b2.Entries[i].Kind == 'f' && len(b2.Entries[i].Data) > 0 {
				d := b2.Entries[i].Data
				d[(len(d)-1)/2] ^= 0x3c
				changed = true
			}
		}
		if sig2, err := signBuild(base+"/resigned", b2); err == nil && changed && len(sig2.Hashes) == len(sig.Hashes) {
			derived := *sig
			derived.Hashes = sig2.Hashes
			for round, sg := range []*pwr.SignatureInfo{&derived, sig} {
				if round == 1 {
					sig.Hashes = sig2.Hashes
				}
				if err := pwr.AssertValid(base+"/resigned", sg); err != nil {
					env.R.Violate("valid-tree-wounded:re-signed", fmt.Sprintf("round %d: the build just signed does not validate against its own signature: %v", round, err), c)
				}
				if err := pwr.AssertValid(base+"/signed", sg); err == nil {
					env.R.Violate("fail-fast-declares-valid:re-signed", fmt.Sprintf("round %d: the previous build (every non-empty file differs) validates against the new signature", round), c)
				}
			}
			env.R.Count("re-signed-signature-value-reused", 1)
		}
		os.RemoveAll(base + "/resigned")
	}
	env.R.Eval(c.Seed, !same)
	for _, d := range desc {
		env.R.Count("damage:"+strings.Fields(d)[0], 1)
	}
	if verr != nil {
		env.R.Count("validate-returned-error", 1)
	}
	_ = bytes.Equal
}

// c05Aggregate drives the real AggregateWounds and the model with the same wound sequence.
func c05Aggregate(env *Env, m *wvlib.Model, maxSize int64, ws [][3]int64) {
	out := make(chan *pwr.Wound, len(ws)+4)
	in := pwr.AggregateWounds(out, maxSize)
	var toks []string
	for _, w := range ws {
		kind := pwr.WoundKind_FILE
		k := "F"
		if w[0] == 1 {
			kind, k = pwr.WoundKind_CLOSED_FILE, "H"
		}
		in <- &pwr.Wound{Kind: kind, Start: w[1], End: w[2]}
		toks = append(toks, fmt.Sprintf("%s:%d:%d", k, w[1], w[2]))
	}
	close(in)
	var got []string
	var outs []*pwr.Wound
	for w := range out {
		k := "F"
		if w.Kind == pwr.WoundKind_CLOSED_FILE {
			k = "H"
		}
		got = append(got, fmt.Sprintf("%s:%d:%d", k, w.Start, w.End))
		outs = append(outs, w)
	}
	c := map[string]interface{}{"kind": "aggregate", "max": maxSize, "wounds": strings.Join(toks, ",")}
	// oracle: every offset of an incoming file wound is inside an outgoing file wound
	for _, w := range ws {
		if w[0] != 0 {
			continue
		}
		for off := w[1]; off < w[2]; off++ {
			ok := false
			for _, o := range outs {
				if o.Kind == pwr.WoundKind_FILE && o.Start <= off && off < o.End {
					ok = true
					break
				}
			}
			if !ok {
				env.R.Violate("aggregation-loses-coverage", fmt.Sprintf("offset %d of wound [%d,%d) is in no outgoing wound: %v -> %v", off, w[1], w[2], toks, got), c)
				break
			}
		}
	}
	arg := strings.Join(toks, ",")
	if arg == "" {
		arg = "-"
	}
	ans, err := m.Ask(fmt.Sprintf("aggregate %d %s", maxSize, arg))
	if err != nil || ans != strings.Join(got, ",") {
		env.R.Disagree(c, strings.Join(got, ","), ans, "see violations")
	}
}

// c05AggregateSweep: every sequence of up to `n` consecutive block verdicts (wound / healthy) with unit blocks,
// for small maxSize values: the aggregator's behaviour at its flush threshold is enumerated completely.
func c05AggregateSweep(env *Env, m *wvlib.Model, n int) {
	count := int64(0)
	for maxSize := int64(1); maxSize <= 4; maxSize++ {
		for l := 0; l <= n; l++ {
			for mask := 0; mask < 1<<l; mask++ {
				var ws [][3]int64
				for i := 0; i < l; i++ {
					k := int64(0)
					if mask&(1<<i) != 0 {
						k = 1
					}
					ws = append(ws, [3]int64{k, int64(i), int64(i + 1)})
				}
				c05Aggregate(env, m, maxSize, ws)
				count++
			}
		}
	}
	env.R.EvalBulk(count, count-8)
	env.R.Count("aggregate-sequences-exhaustive", count)
}

// c05LongRun: a file larger than MaxWoundSize with a long contiguous damaged run (the aggregate wound is
// flushed in the middle of the run).
func c05LongRun(env *Env, m *wvlib.Model, seed uint64) {
	r := wvlib.NewRng(seed)
	nblocks := 66 + r.Intn(75)
	data := r.Bytes(nblocks*wvlib.BS + r.Intn(wvlib.BS))
	b := &wvlib.Build{Entries: []wvlib.BEntry{{Path: "big.bin", Kind: 'f', Data: data}, {Path: "small.bin", Kind: 'f', Data: r.Bytes(10)}}}
	base := env.Scratch.Sub("c05long")
	defer os.RemoveAll(base)
	sig, err := signBuild(base+"/signed", b)
	if err != nil {
		return
	}
	dmg := b.Clone()
	f := dmg.Find("big.bin")
	from := r.Intn(4)
	to := from + r.Pick(64, 65, 66, 67, 128, 129, 130, nblocks-from)
	if to > nblocks {
		to = nblocks
	}
	for k := from; k < to; k++ {
		f.Data[k*wvlib.BS+r.Intn(wvlib.BS)] ^= 0x5a
	}
	dd := base + "/disk"
	dmg.Write(dd)
	wp := base + "/w.pww"
	vctx := &pwr.ValidatorContext{WoundsPath: wp, Consumer: quietConsumer}
	c := map[string]interface{}{"kind": "longrun", "seed": seed, "blocks": nblocks, "damaged": fmt.Sprintf("[%d,%d)", from, to)}
	if err := vctx.Validate(context.Background(), dd, sig); err != nil {
		env.R.Violate("validate-error", err.Error(), c)
		return
	}
	ws, _ := readWounds(wp)
	fi := int64(0)
	for i, cf := range sig.Container.Files {
		if cf.Path == "big.bin" {
			fi = int64(i)
		}
	}
	for k := from; k < to; k++ {
		covered := false
		for off := k * wvlib.BS; off < (k+1)*wvlib.BS && !covered; off++ {
			if f.Data[off] != data[off] {
				for _, w := range ws {
					if w.Kind == pwr.WoundKind_FILE && w.Index == fi && w.Start <= int64(off) && int64(off) < w.End {
						covered = true
					}
				}
				if !covered {
					env.R.Violate("differing-offset-not-covered", fmt.Sprintf("block %d of a damaged run [%d,%d) of big.bin (offset %d) lies in no wound (%d wounds reported)", k, from, to, off, len(ws)), c)
					return
				}
			}
		}
	}
	env.R.Eval(seed, true)
	env.R.Count("long-damaged-run", 1)
}

func runC05(env *Env) {
	R := env.R
	R.Rule = "random builds (nested/empty dirs, empty files, symlinks) x random damage sequences (flips at block edges and last byte, truncation incl. exactly at block boundaries, extension within/across/past the last block, emptied/deleted entries, content where empty expected, kind replacements, retargeted symlinks, combinations); distinct by seed; non-trivial = the damaged tree differs from the signed build"
	if env.Replay != "" {
		var c C05Case
		replayCase(env, &c)
		m, _ := wvlib.StartModel()
		defer m.Close()
		c05One(env, m, &c)
		printOutcome(env)
		return
	}
	n := 300
	if env.Thorough() {
		n = 10000
	}
	rng := wvlib.NewRng(env.Seed)
	cases := make([]*C05Case, n)
	for i := range cases {
		cases[i] = &C05Case{Seed: rng.Next(), Opts: wvlib.PairOpts{MaxFiles: 5, Symlinks: true, SmallOnly: i%3 != 0},
			Dmg: wvlib.DamageOpts{KindSwaps: i%2 == 0, MaxOps: 3}}
	}
	models := startModels(env)
	{
		m := <-models
		sweep := 9
		if env.Thorough() {
			sweep = 13
		}
		c05AggregateSweep(env, m, sweep)
		models <- m
	}
	nLong := 3
	if env.Thorough() {
		nLong = 40
	}
	wvlib.ParallelDo(nLong, env.Workers, func(i int) {
		m := <-models
		defer func() { models <- m }()
		c05LongRun(env, m, rng.Next()+uint64(i))
	})
	wvlib.ParallelDo(n, env.Workers, func(i int) {
		m := <-models
		defer func() { models <- m }()
		c05One(env, m, cases[i])
		if i < 3 {
			R.Sample(cases[i])
		}
	})
	stopModels(env, models)
}
