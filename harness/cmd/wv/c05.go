package main

import (
	"bytes"
	"context"
	"fmt"
	"os"
	"sort"
	"strings"

	"github.com/itchio/lake/pools/fspool"
	"github.com/itchio/lake/tlc"
	"github.com/itchio/wharf/pwr"
	"github.com/itchio/wharf/wire"

	"wv/internal/wvlib"
)

func init() { runners["C05"] = runC05 }

type C05Case struct {
	Seed   uint64           `json:"seed"`
	Opts   wvlib.PairOpts   `json:"opts"`
	Dmg    wvlib.DamageOpts `json:"damage_opts"`
	Damage []string         `json:"damage,omitempty"`
}

// signBuild materialises b and returns its directory, container and signature.
func signBuild(dir string, b *wvlib.Build) (*pwr.SignatureInfo, error) {
	if err := b.Write(dir); err != nil {
		return nil, err
	}
	c, err := tlc.WalkAny(dir, tlc.WalkOpts{})
	if err != nil {
		return nil, err
	}
	h, err := pwr.ComputeSignature(context.Background(), c, fspool.New(c, dir), quietConsumer)
	if err != nil {
		return nil, err
	}
	return &pwr.SignatureInfo{Container: c, Hashes: h}, nil
}

// writeSignedListing writes the signed build in container order for the model.
func writeSignedListing(path string, c *tlc.Container, b *wvlib.Build, sc *wvlib.Scratch) {
	var sb strings.Builder
	for _, d := range c.Dirs {
		fmt.Fprintf(&sb, "d %s\n", d.Path)
	}
	for i, f := range c.Files {
		e := b.Find(f.Path)
		if e == nil {
			e = &wvlib.BEntry{}
		}
		tok := ""
		if len(e.Data) <= 256 {
			tok = fmt.Sprintf("x:%x", e.Data)
		} else {
			p := fmt.Sprintf("%s.f%d", path, i)
			os.WriteFile(p, e.Data, 0o644)
			tok = "f:" + p
		}
		fmt.Fprintf(&sb, "f %s %s\n", f.Path, tok)
	}
	for _, l := range c.Symlinks {
		fmt.Fprintf(&sb, "l %s %s\n", l.Path, l.Dest)
	}
	os.WriteFile(path, []byte(sb.String()), 0o644)
}

// writeDiskListing writes an arbitrary tree for the model.
func writeDiskListing(path string, b *wvlib.Build) {
	var sb strings.Builder
	for i, e := range b.Entries {
		switch e.Kind {
		case 'd':
			fmt.Fprintf(&sb, "d %s\n", e.Path)
		case 'l':
			fmt.Fprintf(&sb, "l %s %s\n", e.Path, e.Dest)
		case 'f':
			if len(e.Data) <= 256 {
				fmt.Fprintf(&sb, "f %s x:%x\n", e.Path, e.Data)
			} else {
				p := fmt.Sprintf("%s.d%d", path, i)
				os.WriteFile(p, e.Data, 0o644)
				fmt.Fprintf(&sb, "f %s f:%s\n", e.Path, p)
			}
		}
	}
	os.WriteFile(path, []byte(sb.String()), 0o644)
}

// readWounds decodes a wounds file with the real reader.
func readWounds(path string) ([]*pwr.Wound, error) {
	data, err := os.ReadFile(path)
	if err != nil {
		if os.IsNotExist(err) {
			return nil, nil
		}
		return nil, err
	}
	rc := wire.NewReadContext(bytesSource(data))
	if err := rc.ExpectMagic(pwr.WoundsMagic); err != nil {
		return nil, err
	}
	if err := rc.ReadMessage(&pwr.WoundsHeader{}); err != nil {
		return nil, err
	}
	if err := rc.ReadMessage(&tlc.Container{}); err != nil {
		return nil, err
	}
	var ws []*pwr.Wound
	for {
		w := &pwr.Wound{}
		if err := rc.ReadMessage(w); err != nil {
			break
		}
		ws = append(ws, w)
	}
	return ws, nil
}

func woundKeyGo(w *pwr.Wound) string {
	k := "?"
	switch w.Kind {
	case pwr.WoundKind_FILE:
		k = "F"
	case pwr.WoundKind_DIR:
		k = "D"
	case pwr.WoundKind_SYMLINK:
		k = "L"
	case pwr.WoundKind_CLOSED_FILE:
		k = "H"
	}
	return fmt.Sprintf("%s %d %d %d", k, w.Index, w.Start, w.End)
}

func c05One(env *Env, m *wvlib.Model, c *C05Case) {
	r := wvlib.NewRng(c.Seed)
	b := wvlib.GenBuild(r, c.Opts)
	base := env.Scratch.Sub("c05")
	defer os.RemoveAll(base)
	sig, err := signBuild(base+"/signed", b)
	if err != nil {
		env.R.Note("sign: %v", err)
		return
	}
	dmg, desc := wvlib.Damage(r, b, c.Dmg)
	c.Damage = desc
	dd := base + "/disk"
	if err := dmg.Write(dd); err != nil {
		env.R.Note("materialising damage %v: %v", desc, err)
		return
	}
	disk, _ := wvlib.ReadTree(dd)
	same := wvlib.DiffTrees(disk, b) == ""
	// real validation: wounds file + fail-fast
	wp := base + "/wounds.pww"
	vctx := &pwr.ValidatorContext{WoundsPath: wp, Consumer: quietConsumer}
	verr := vctx.Validate(context.Background(), dd, sig)
	ws, rerr := readWounds(wp)
	if rerr != nil {
		env.R.Violate("wounds-file-unreadable", rerr.Error(), c)
		return
	}
	ferr := pwr.AssertValid(dd, sig)
	impl := "err"
	if verr == nil {
		keys := make([]string, len(ws))
		for i, w := range ws {
			keys[i] = woundKeyGo(w)
		}
		sort.Strings(keys)
		impl = "ok " + strings.Join(keys, ";")
	}
	// ---- oracle
	if !same {
		if verr == nil && len(ws) == 0 {
			env.R.Violate("deviation-not-reported", fmt.Sprintf("damage %v: no wound", desc), c)
		}
		if ferr == nil {
			env.R.Violate("fail-fast-declares-valid", fmt.Sprintf("damage %v: AssertValid returned nil", desc), c)
		}
	} else if verr != nil || len(ws) != 0 || ferr != nil {
		env.R.Violate("valid-tree-wounded", fmt.Sprintf("undamaged tree: err=%v wounds=%d failfast=%v", verr, len(ws), ferr), c)
	}
	if verr == nil {
		for _, w := range ws {
			switch w.Kind {
			case pwr.WoundKind_FILE:
				if w.Index < 0 || int(w.Index) >= len(sig.Container.Files) {
					env.R.Violate("wound-names-no-entry", woundKeyGo(w), c)
				}
			case pwr.WoundKind_DIR:
				if w.Index < 0 || int(w.Index) >= len(sig.Container.Dirs) {
					env.R.Violate("wound-names-no-entry", woundKeyGo(w), c)
				}
			case pwr.WoundKind_SYMLINK:
				if w.Index < 0 || int(w.Index) >= len(sig.Container.Symlinks) {
					env.R.Violate("wound-names-no-entry", woundKeyGo(w), c)
				}
			}
			if w.Start < 0 || w.Start > w.End {
				env.R.Violate("wound-malformed-range", fmt.Sprintf("%s (damage %v)", woundKeyGo(w), desc), c)
			}
		}
		// coverage: every differing offset below the signed length lies in a file wound; length mismatch => a wound
		for i, f := range sig.Container.Files {
			want := b.Find(f.Path).Data
			var got []byte
			present := false
			if e := disk.Find(f.Path); e != nil && e.Kind == 'f' {
				got, present = e.Data, true
			}
			covered := func(off int64) bool {
				for _, w := range ws {
					if w.Kind == pwr.WoundKind_FILE && w.Index == int64(i) && w.Start <= off && off < w.End {
						return true
					}
				}
				return false
			}
			hasWound := false
			for _, w := range ws {
				if w.Kind == pwr.WoundKind_FILE && w.Index == int64(i) {
					hasWound = true
				}
			}
			if !present || len(got) != len(want) {
				if !hasWound {
					env.R.Violate("length-or-missing-not-wounded", fmt.Sprintf("file %d %s (damage %v)", i, f.Path, desc), c)
				}
			}
			for off := 0; off < len(want); off++ {
				differs := !present || off >= len(got) || got[off] != want[off]
				if differs && !covered(int64(off)) {
					env.R.Violate("differing-offset-not-covered", fmt.Sprintf("file %d %s offset %d (damage %v)", i, f.Path, off, desc), c)
					break
				}
				if differs {
					// jump to the next block: one probe per block is enough and keeps the oracle linear
					off = (off/wvlib.BS+1)*wvlib.BS - 1
				}
			}
		}
	}
	// ---- model
	sl, dl := base+"/signed.lst", base+"/disk.lst"
	writeSignedListing(sl, sig.Container, b, env.Scratch)
	writeDiskListing(dl, disk)
	ans, merr := m.Ask(fmt.Sprintf("validate %d %d %s %s", wvlib.BS, pwr.MaxWoundSize, sl, dl))
	if merr != nil {
		env.R.Disagree(c, trunc(impl, 300), "MODEL-DIED", "n/a")
	} else if ans != impl {
		env.R.Disagree(c, trunc(impl, 600), trunc(ans, 600), fmt.Sprintf("damage %v", desc))
	}
	ffImpl := ferr == nil
	_ = ffImpl
	env.R.Eval(c.Seed, !same)
	for _, d := range desc {
		env.R.Count("damage:"+strings.Fields(d)[0], 1)
	}
	if verr != nil {
		env.R.Count("validate-returned-error", 1)
	}
	_ = bytes.Equal
}

func runC05(env *Env) {
	R := env.R
	R.Rule = "random builds (nested/empty dirs, empty files, symlinks) x random damage sequences (flips at block edges and last byte, truncation incl. exactly at block boundaries, extension within/across/past the last block, emptied/deleted entries, content where empty expected, kind replacements, retargeted symlinks, combinations); distinct by seed; non-trivial = the damaged tree differs from the signed build"
	if env.Replay != "" {
		var c C05Case
		replayCase(env, &c)
		m, _ := wvlib.StartModel()
		defer m.Close()
		c05One(env, m, &c)
		printOutcome(env)
		return
	}
	n := 300
	if env.Thorough() {
		n = 10000
	}
	rng := wvlib.NewRng(env.Seed)
	cases := make([]*C05Case, n)
	for i := range cases {
		cases[i] = &C05Case{Seed: rng.Next(), Opts: wvlib.PairOpts{MaxFiles: 5, Symlinks: true, SmallOnly: i%3 != 0},
			Dmg: wvlib.DamageOpts{KindSwaps: i%2 == 0, MaxOps: 3}}
	}
	models := startModels(env)
	wvlib.ParallelDo(n, env.Workers, func(i int) {
		m := <-models
		defer func() { models <- m }()
		c05One(env, m, cases[i])
		if i < 3 {
			R.Sample(cases[i])
		}
	})
	stopModels(env, models)
}
