package main

import (
	"bytes"
	"encoding/gob"
	"encoding/json"
	"fmt"
	"github.com/itchio/lake/tlc"
	"github.com/itchio/wharf/pwr/bowl"
	"io"
	"os"
	"strings"

	"github.com/itchio/savior"
	"github.com/itchio/savior/seeksource"
	"github.com/itchio/wharf/pwr/overlay"
	"github.com/itchio/wharf/wire"

	"wv/internal/wvlib"
)

func init() { runners["C14"] = runC14 }

// bytesSourceUnresumed is a savior.SeekSource the callee will Resume itself.
func bytesSourceUnresumed(b []byte) savior.SeekSource { return seeksource.FromBytes(b) }

// bytesSourceUnresumedResumed: ReadSignature expects a source that was already resumed.
func bytesSourceUnresumedResumed(b []byte) savior.SeekSource { return bytesSource(b) }

// bytesSource is a resumed savior.SeekSource over a byte slice.
func bytesSource(b []byte) savior.SeekSource {
	s := seeksource.FromBytes(b)
	if _, err := s.Resume(nil); err != nil {
		panic(err)
	}
	return s
}

const ovBuf = 128 * 1024
const ovThr = 8 * 1024

// C14Case: contents are described by segments so that replay files stay small.
type C14Case struct {
	Seed   uint64 `json:"seed"`
	Shape  string `json:"shape"`
	Events string `json:"events,omitempty"` // filled for information
}

type ovEvent struct {
	kind byte // 'w' write, 'f' flush, 'x' session break (flush, save offsets, stale garbage, resume in a new writer)
	n    int
}

func c14Expand(c *C14Case) (old, nw []byte, evs []ovEvent) {
	r := wvlib.NewRng(c.Seed)
	sizes := []int{0, 1, ovThr - 1, ovThr, ovThr + 1, ovThr + 2, 2 * ovThr, ovBuf - 1, ovBuf, ovBuf + 1, ovBuf + ovThr, 2 * ovBuf, 2*ovBuf + 1, 3*ovBuf + 17}
	pickSize := func() int {
		if r.Intn(3) == 0 {
			return r.Intn(3 * ovBuf)
		}
		return sizes[r.Intn(len(sizes))]
	}
	switch c.Shape {
	case "runs":
		// new = old with equal runs of chosen lengths separated by changed bytes, placed around window boundaries
		old = r.Bytes(pickSize() + ovBuf)
		nw = append([]byte(nil), old...)
		pos := r.Intn(64)
		for pos < len(nw) {
			run := r.Pick(1, 2, ovThr-1, ovThr, ovThr+1, ovThr+2, 3*ovThr, ovBuf-ovThr, ovBuf-1, ovBuf, r.Intn(2*ovThr+1))
			pos += run
			if pos >= len(nw) {
				break
			}
			ch := 1 + r.Intn(3)
			for k := 0; k < ch && pos < len(nw); k++ {
				nw[pos] ^= byte(1 + r.Intn(255))
				pos++
			}
		}
		switch r.Intn(4) {
		case 0:
			nw = nw[:r.Intn(len(nw)+1)]
		case 1:
			nw = append(nw, r.Bytes(r.Pick(1, ovThr+1, ovBuf+3, r.Intn(ovBuf)))...)
		}
	case "periodic-grow":
		// low-entropy content that repeats with a stride dividing the window: what lies one window back equals
		// what is being written (stale reader buffers look like matches); the new file continues the pattern
		// past the old end
		var unit []byte
		switch r.Intn(3) {
		case 0:
			unit = []byte{0xFF}
		case 1:
			unit = r.Bytes(4096)
		default:
			unit = r.Bytes(r.Pick(1, 2, 512, ovThr, ovBuf))
		}
		rep := func(n int) []byte {
			b := make([]byte, 0, n)
			for len(b) < n {
				b = append(b, unit...)
			}
			return b[:n]
		}
		hdr := r.Bytes(r.Pick(0, 16, 100))
		l1 := ovBuf + r.Pick(0, 1, ovThr, ovThr+1, ovBuf/2, ovBuf-1, ovBuf, r.Intn(2*ovBuf))
		l2 := l1 + r.Pick(1, ovThr, ovThr+1, 2*ovThr, ovBuf/2, ovBuf, ovBuf+ovThr+1, r.Intn(2*ovBuf)+1)
		if r.Intn(5) == 0 {
			l1, l2 = l2, l1 // shrinking variant
		}
		old = append(append([]byte(nil), hdr...), rep(l1)...)
		nw = append(append([]byte(nil), hdr...), rep(l2)...)
	case "identical":
		old = r.Bytes(pickSize())
		nw = append([]byte(nil), old...)
	case "unrelated":
		old = r.Bytes(pickSize())
		nw = r.Bytes(pickSize())
	case "lowentropy":
		old = r.SmallAlpha(pickSize(), 2)
		nw = r.SmallAlpha(pickSize(), 2)
	case "zeros":
		old = make([]byte, pickSize())
		nw = make([]byte, pickSize())
		for k := 0; k < 4 && len(nw) > 0; k++ {
			nw[r.Intn(len(nw))] = 1
		}
	default: // "shifted": insertion near the start shifts everything
		old = r.Bytes(pickSize() + 10)
		k := r.Intn(len(old))
		nw = append(append(append([]byte(nil), old[:k]...), r.Bytes(1+r.Intn(5))...), old[k:]...)
	}
	// write pattern
	remaining := len(nw)
	mode := r.Intn(5)
	for remaining > 0 {
		var n int
		switch mode {
		case 0:
			n = 1 + r.Intn(7)
			if len(nw) > 20000 {
				n = 1 + r.Intn(5000)
			}
		case 1:
			n = r.Pick(ovBuf-1, ovBuf, ovBuf+1, 2*ovBuf, 2*ovBuf+5, ovBuf/2, ovBuf/2+1)
		case 2:
			n = 1 + r.Intn(3*ovBuf)
		case 3:
			n = remaining
		default:
			n = 1 + r.Intn(40000)
		}
		if n > remaining {
			n = remaining
		}
		evs = append(evs, ovEvent{'w', n})
		remaining -= n
		switch r.Intn(12) {
		case 0:
			evs = append(evs, ovEvent{'f', 0})
		case 1:
			evs = append(evs, ovEvent{'x', 0})
		}
	}
	return
}

func evString(evs []ovEvent) string {
	parts := make([]string, len(evs))
	for i, e := range evs {
		if e.kind == 'w' {
			parts[i] = fmt.Sprintf("w%d", e.n)
		} else {
			parts[i] = string(e.kind)
		}
	}
	return strings.Join(parts, ",")
}

// c14Impl runs the real overlay writer and applier.  Returns canonical ops, the patched file, or an error.
func c14Impl(old, nw []byte, evs []ovEvent, rng *wvlib.Rng) (string, []byte, error) {
	ovFile := &wvlib.MemFile{}
	oldR := bytes.NewReader(old)
	var oldSrc io.Reader = oldR
	shortOld := (len(old)+len(nw)+len(evs))%3 == 0
	if shortOld {
		// the old file through a reader that hands out fewer bytes than asked for (io.Reader allows it at any
		// time): the overlay, op for op, must be what full reads give
		oldSrc = &c14ShortReader{r: oldR, rng: wvlib.NewRng(uint64(len(old)) + 7)}
	}
	ow, err := overlay.NewOverlayWriter(oldSrc, 0, ovFile, 0)
	if err != nil {
		return "", nil, err
	}
	pos := 0
	for _, e := range evs {
		switch e.kind {
		case 'w':
			if _, err := ow.Write(nw[pos : pos+e.n]); err != nil {
				return "", nil, err
			}
			pos += e.n
		case 'f':
			if err := ow.Flush(); err != nil {
				return "", nil, err
			}
		case 'x':
			if err := ow.Flush(); err != nil {
				return "", nil, err
			}
			ro, oo := ow.ReadOffset(), ow.OverlayOffset()
			// a crash leaves stale bytes after the saved overlay offset
			ovFile.Truncate(oo)
			ovFile.Seek(oo, io.SeekStart)
			ovFile.Write(rng.Bytes(rng.Intn(300)))
			// resume in a brand-new writer
			oldR = bytes.NewReader(old)
			if _, err := oldR.Seek(ro, io.SeekStart); err != nil {
				return "", nil, err
			}
			ovFile.Seek(oo, io.SeekStart)
			oldSrc = oldR
			if shortOld {
				oldSrc = &c14ShortReader{r: oldR, rng: wvlib.NewRng(uint64(ro) + 11)}
			}
			ow, err = overlay.NewOverlayWriter(oldSrc, ro, ovFile, oo)
			if err != nil {
				return "", nil, err
			}
		}
	}
	if err := ow.Finalize(); err != nil {
		return "", nil, err
	}
	// decode ops up to the end marker
	rctx := wire.NewReadContext(bytesSource(ovFile.Data))
	if err := rctx.ExpectMagic(overlay.OverlayMagic); err != nil {
		return "", nil, err
	}
	hdr := &overlay.OverlayHeader{}
	if err := rctx.ReadMessage(hdr); err != nil {
		return "", nil, err
	}
	var sb strings.Builder
	first := true
	for {
		op := &overlay.OverlayOp{}
		if err := rctx.ReadMessage(op); err != nil {
			return "", nil, fmt.Errorf("decoding overlay: %v", err)
		}
		if op.Type == overlay.OverlayOp_HEY_YOU_DID_IT {
			break
		}
		if !first {
			sb.WriteByte(';')
		}
		first = false
		switch op.Type {
		case overlay.OverlayOp_SKIP:
			fmt.Fprintf(&sb, "S %d", op.Len)
		case overlay.OverlayOp_FRESH:
			fmt.Fprintf(&sb, "F %d %d", len(op.Data), wvlib.Fnv(op.Data))
		default:
			fmt.Fprintf(&sb, "? %d", op.Type)
		}
	}
	// apply with the real applier on a copy of old, then truncate like applyOverlays
	out := &wvlib.MemFile{Data: append([]byte(nil), old...)}
	pctx := &overlay.OverlayPatchContext{}
	if err := pctx.Patch(bytesSource(ovFile.Data), out); err != nil {
		return sb.String(), nil, fmt.Errorf("patch: %v", err)
	}
	final, _ := out.Seek(0, io.SeekCurrent)
	out.Truncate(final)
	return sb.String(), out.Data, nil
}

func c14One(env *Env, m *wvlib.Model, c *C14Case) {
	old, nw, evs := c14Expand(c)
	c.Events = trunc(evString(evs), 300)
	ops, res, err := c14Impl(old, nw, evs, wvlib.NewRng(c.Seed^0xABCDEF))
	impl := ""
	if err != nil {
		impl = "ERR " + err.Error()
		env.R.Violate("overlay-error", err.Error(), c)
	} else {
		impl = fmt.Sprintf("%s | %d %d", ops, len(res), wvlib.Fnv(res))
		if !bytes.Equal(res, nw) {
			env.R.Violate("overlay-result-differs", fmt.Sprintf("patched file has %d bytes (fnv %d), new has %d (fnv %d)", len(res), wvlib.Fnv(res), len(nw), wvlib.Fnv(nw)), c)
		}
	}
	ot, c1 := env.Scratch.Tok(old)
	nt, c2 := env.Scratch.Tok(nw)
	ans, merr := m.Ask(fmt.Sprintf("c14 %d %d %s %s %s", ovBuf, ovThr, ot, nt, evString(evs)))
	c1()
	c2()
	if merr != nil {
		env.R.Disagree(c, impl, "MODEL-DIED "+merr.Error(), "n/a")
		return
	}
	if ans != impl {
		env.R.Disagree(c, impl, ans, "see violations")
	}
	if c.Seed%3 == 0 {
		c14BowlSessions(env, c, old, nw)
	}
	nSkip := strings.Count(ops, "S ")
	nFresh := strings.Count(ops, "F ")
	env.R.Eval(c.Seed, nSkip > 0 && nFresh > 0)
	env.R.Count("shape:"+c.Shape, 1)
	if nSkip > 0 {
		env.R.Count("has-skip", 1)
	}
	if len(nw) > len(old) {
		env.R.Count("new-longer", 1)
	} else if len(nw) < len(old) {
		env.R.Count("new-shorter", 1)
	}
	for _, e := range evs {
		if e.kind == 'x' {
			env.R.Count("has-session-break", 1)
			break
		}
	}
}

// c14BowlSessions drives the same (old, new) through the REAL in-place entry writer of the overlay bowl in two
// sessions: session 1 writes a prefix, saves a checkpoint (gob round trip), keeps writing and saving (so that the
// staged overlay holds ops beyond the checkpoint), then dies; session 2 is a brand-new bowl and writer resumed from
// the FIRST checkpoint, which writes the rest; Commit must leave exactly the new content.
func c14BowlSessions(env *Env, c *C14Case, old, nw []byte) {
	if len(old) == 0 || len(nw) < 2 {
		return
	}
	r := wvlib.NewRng(c.Seed ^ 0xb0b1)
	base := env.Scratch.Sub("c14bowl")
	defer os.RemoveAll(base)
	dir, ndir, stage := base+"/dir", base+"/new", base+"/stage"
	// two more files patched by the same bowl (its Commit applies every staged overlay in one go): each is its old
	// self with a few bytes changed past the start (a SKIP, then FRESH data) and, for the first, a longer tail
	gOld, hOld := append([]byte(nil), nw...), append([]byte(nil), old...)
	gNew, hNew := append([]byte(nil), nw...), append([]byte(nil), old...)
	for k := 0; k < 3; k++ {
		gNew[len(gNew)/2+r.Intn(len(gNew)-len(gNew)/2)] ^= 0x5a
		hNew[len(hNew)/3+r.Intn(len(hNew)-len(hNew)/3)] ^= 0xa5
	}
	gNew = append(gNew, r.Bytes(1+r.Intn(300))...)
	(&wvlib.Build{Entries: []wvlib.BEntry{{Path: "f.bin", Kind: 'f', Data: old}, {Path: "g.bin", Kind: 'f', Data: gOld}, {Path: "h.bin", Kind: 'f', Data: hOld}}}).Write(dir)
	(&wvlib.Build{Entries: []wvlib.BEntry{{Path: "f.bin", Kind: 'f', Data: nw}, {Path: "g.bin", Kind: 'f', Data: gNew}, {Path: "h.bin", Kind: 'f', Data: hNew}}}).Write(ndir)
	tc, err1 := tlc.WalkAny(dir, tlc.WalkOpts{})
	sc, err2 := tlc.WalkAny(ndir, tlc.WalkOpts{})
	if err1 != nil || err2 != nil {
		return
	}
	if r.Intn(3) == 0 {
		// the file on disk is LONGER than the old container says (something appended to it since) and longer than
		// the new content, which is at least as long as the recorded size: the overlay is computed against what is
		// on disk, and what is on disk afterwards must still be exactly the new content
		disk := append([]byte(nil), old...)
		if len(disk) <= len(nw) {
			disk = append(disk, r.Bytes(len(nw)-len(disk)+1+r.Intn(5000))...)
		}
		rec := int64(r.Intn(len(nw) + 1))
		if rec > int64(len(old)) {
			rec = int64(len(old))
		}
		for _, f := range tc.Files {
			if f.Path == "f.bin" {
				f.Size = rec
			}
		}
		os.WriteFile(dir+"/f.bin", disk, 0o644)
		env.R.Count("bowl-sessions:disk-file-longer-than-recorded", 1)
	}
	mk := func() (bowl.Bowl, error) {
		return bowl.NewOverlayBowl(bowl.OverlayBowlParams{SourceContainer: sc, TargetContainer: tc, OutputFolder: dir, StageFolder: stage, Consumer: quietConsumer})
	}
	fail := func(cls, det string) { env.R.Violate("bowl-sessions:"+cls, det, c) }
	b1, err := mk()
	if err != nil {
		return
	}
	if err := b1.Resume(nil); err != nil {
		fail("error", err.Error())
		return
	}
	w1, err := b1.GetWriter(0)
	if err != nil {
		fail("error", err.Error())
		return
	}
	if _, err := w1.Resume(nil); err != nil {
		fail("error", err.Error())
		return
	}
	a := r.Intn(len(nw))
	if r.Intn(4) == 0 {
		a = 0 // the checkpoint is taken before the first byte of the entry is written
	}
	if _, err := w1.Write(nw[:a]); err != nil {
		fail("error", err.Error())
		return
	}
	wck, err := w1.Save()
	if err != nil {
		fail("error", err.Error())
		return
	}
	bck, err := b1.Save()
	if err != nil {
		fail("error", err.Error())
		return
	}
	var gb bytes.Buffer
	type both struct {
		W *bowl.WriterCheckpoint
		B *bowl.BowlCheckpoint
	}
	if err := gob.NewEncoder(&gb).Encode(&both{wck, bck}); err != nil {
		fail("checkpoint-not-serialisable", err.Error())
		return
	}
	// the session goes on after the checkpoint (more ops reach the staged overlay), then dies without closing
	ahead := r.Intn(len(nw) - a + 1)
	if ahead > 0 {
		w1.Write(nw[a : a+ahead])
		if r.Bool() {
			w1.Save()
		}
	}
	env.R.Count("bowl-sessions:bytes-written-after-the-checkpoint>0", int64(btoi(ahead > 0)))
	// session 2: brand-new bowl and writer, checkpoint from its serialised form
	var ck both
	if err := gob.NewDecoder(bytes.NewReader(gb.Bytes())).Decode(&ck); err != nil {
		fail("checkpoint-not-deserialisable", err.Error())
		return
	}
	b2, err := mk()
	if err != nil {
		return
	}
	if err := b2.Resume(ck.B); err != nil {
		fail("error", err.Error())
		return
	}
	w2, err := b2.GetWriter(0)
	if err != nil {
		fail("error", err.Error())
		return
	}
	off, err := w2.Resume(ck.W)
	if err != nil {
		fail("error", "resume: "+err.Error())
		return
	}
	if off != int64(a) {
		fail("resume-offset", fmt.Sprintf("writer resumed at %d, checkpoint was taken after %d bytes", off, a))
		return
	}
	if _, err := w2.Write(nw[a:]); err != nil {
		fail("error", err.Error())
		return
	}
	if err := w2.Finalize(); err != nil {
		fail("error", err.Error())
		return
	}
	if err := w2.Close(); err != nil {
		fail("error", err.Error())
		return
	}
	for i, data := range [][]byte{gNew, hNew} {
		w, err := b2.GetWriter(int64(i + 1))
		if err != nil {
			fail("error", err.Error())
			return
		}
		if _, err := w.Resume(nil); err != nil {
			fail("error", err.Error())
			return
		}
		cut := r.Intn(len(data) + 1)
		_, err1 := w.Write(data[:cut])
		_, err2 := w.Write(data[cut:])
		if err1 != nil || err2 != nil || w.Finalize() != nil || w.Close() != nil {
			fail("error", fmt.Sprintf("writing file %d of the same bowl failed", i+1))
			return
		}
	}
	if err := b2.Commit(); err != nil {
		fail("error", "commit: "+err.Error())
		return
	}
	b2.Close()
	for i, want := range [][]byte{gNew, hNew} {
		name := []string{"g.bin", "h.bin"}[i]
		if got, _ := os.ReadFile(dir + "/" + name); !bytes.Equal(got, want) {
			fail("result-differs:later-file", fmt.Sprintf("%s (file %d of the bowl): committed file has %d bytes, new has %d, first difference at %d", name, i+1, len(got), len(want), firstDiffBytes(got, want)))
		}
	}
	got, _ := os.ReadFile(dir + "/f.bin")
	if !bytes.Equal(got, nw) {
		fail("result-differs", fmt.Sprintf("checkpoint after %d bytes, %d more written before the crash: committed file has %d bytes (fnv %d), new has %d (fnv %d), first difference at %d", a, ahead, len(got), wvlib.Fnv(got), len(nw), wvlib.Fnv(nw), firstDiffBytes(got, nw)))
	}
	env.R.Count("bowl-sessions", 1)
}

func btoi(b bool) int {
	if b {
		return 1
	}
	return 0
}

func runC14(env *Env) {
	R := env.R
	R.Rule = "random (old,new,write/flush/session pattern) cases from boundary-directed shapes; a third of them also through the real overlay bowl entry writer in two sessions (checkpoint, more writes, crash, brand-new bowl resumed from the checkpoint, Commit); distinct by seed; non-trivial = the overlay contains both SKIP and FRESH ops"
	if env.Replay != "" {
		var wrap struct {
			Case C14Case `json:"case"`
		}
		b, _ := os.ReadFile(env.Replay)
		json.Unmarshal(b, &wrap)
		m, err := wvlib.StartModel()
		if err != nil {
			fmt.Fprintln(os.Stderr, err)
			os.Exit(2)
		}
		defer m.Close()
		c14One(env, m, &wrap.Case)
		for _, v := range R.Violations {
			fmt.Printf("oracle: %s: %s\n", v.Class, v.Detail)
		}
		for _, d := range R.Disagreements {
			fmt.Printf("impl : %s\nmodel: %s\n", trunc(d.Impl, 600), trunc(d.Model, 600))
		}
		return
	}
	n := 500
	if env.Thorough() {
		n = 20000
	}
	shapes := []string{"runs", "runs", "runs", "identical", "unrelated", "lowentropy", "zeros", "shifted", "periodic-grow", "periodic-grow"}
	rng := wvlib.NewRng(env.Seed)
	cases := make([]*C14Case, n)
	for i := range cases {
		cases[i] = &C14Case{Seed: rng.Next(), Shape: shapes[i%len(shapes)]}
	}
	models := make(chan *wvlib.Model, env.Workers)
	for i := 0; i < env.Workers; i++ {
		m, err := wvlib.StartModel()
		if err != nil {
			fmt.Fprintln(os.Stderr, "cannot start model:", err)
			os.Exit(2)
		}
		models <- m
	}
	wvlib.ParallelDo(n, env.Workers, func(i int) {
		m := <-models
		defer func() { models <- m }()
		c14One(env, m, cases[i])
		if i < 3 {
			R.Sample(cases[i])
		}
	})
	close(models)
	for m := range models {
		R.ModelLines += m.Lines
		m.Close()
	}
}

// c14ShortReader hands out fewer bytes than asked for (never zero, never an error of its own).
type c14ShortReader struct {
	r   io.Reader
	rng *wvlib.Rng
}

func (s *c14ShortReader) Read(p []byte) (int, error) {
	if len(p) > 1 {
		p = p[:1+s.rng.Intn(len(p))]
	}
	return s.r.Read(p)
}
