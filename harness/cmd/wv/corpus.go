package main

import (
	"bufio"
	"encoding/json"
	"os"
	"path/filepath"
)

// corpusCases reads /verif/corpus/<ID>.jsonl: one case per line (the "case" object of a replay file), kept
// from past failures. They run before the generated cases in every tier.
func corpusCases(env *Env, id string) []json.RawMessage {
	root := os.Getenv("WV_ROOT")
	if root == "" {
		root = "/verif"
	}
	f, err := os.Open(filepath.Join(root, "corpus", id+".jsonl"))
	if err != nil {
		return nil
	}
	defer f.Close()
	var out []json.RawMessage
	sc := bufio.NewScanner(f)
	sc.Buffer(make([]byte, 1<<20), 1<<24)
	for sc.Scan() {
		b := sc.Bytes()
		if len(b) == 0 || b[0] == '#' {
			continue
		}
		out = append(out, json.RawMessage(append([]byte(nil), b...)))
	}
	env.R.Count("corpus-cases", int64(len(out)))
	return out
}
