package main

import (
	"bytes"
	"context"
	"crypto/md5"
	"fmt"
	"os"
	"strings"

	"github.com/itchio/lake/pools/fspool"
	"github.com/itchio/wharf/pwr"
	"github.com/itchio/wharf/wsync"

	"wv/internal/wvlib"
)

// PairCase is a replayable (old,new) build pair.
type PairCase struct {
	Seed  uint64                 `json:"seed"`
	Opts  wvlib.PairOpts         `json:"opts"`
	Comp  Comp                   `json:"comp"`
	Slice bool                   `json:"slice,omitempty"` // source pool returns adversarially short reads
	Rel   []string               `json:"relations,omitempty"`
	Extra map[string]interface{} `json:"extra,omitempty"`
}

func (c *PairCase) gen() (*wvlib.Build, *wvlib.Build) {
	r := wvlib.NewRng(c.Seed)
	old, nw, rel := wvlib.GenPair(r, c.Opts)
	c.Rel = rel
	return old, nw
}

// PairEval holds everything observed on one pair.
type PairEval struct {
	Res                                             *DiffResult
	ImplMsgs, ImplSigs, ImplCounts                  string
	ModelMsgs, ModelReplays, ModelSigs, ModelCounts string
	ModelErr                                        error
	SigProblems                                     []string // oracle findings on the signature stream (C04)
	NewFiles                                        [][]byte // contents of the new build's files in container order
	OldFiles                                        [][]byte
}

// sigCanon renders hashes per file as "weak:len,..." in container order, verifying strong hashes
// independently (crypto/md5 over the block the entry must describe).
func sigCanon(files [][]byte, hashes []wsync.BlockHash) (string, []string) {
	per := make([][]string, len(files))
	var problems []string
	expectIdx := map[int64]int64{}
	lastFile := int64(-1)
	for _, h := range hashes {
		if h.FileIndex < 0 || int(h.FileIndex) >= len(files) {
			problems = append(problems, fmt.Sprintf("hash names file %d", h.FileIndex))
			continue
		}
		if h.FileIndex < lastFile {
			problems = append(problems, "hashes not grouped by file in container order")
		}
		lastFile = h.FileIndex
		if h.BlockIndex != expectIdx[h.FileIndex] {
			problems = append(problems, fmt.Sprintf("file %d: block index %d, expected %d", h.FileIndex, h.BlockIndex, expectIdx[h.FileIndex]))
		}
		expectIdx[h.FileIndex]++
		data := files[h.FileIndex]
		lo := int(h.BlockIndex) * wvlib.BS
		ln := wvlib.BS
		if h.ShortSize != 0 {
			ln = int(h.ShortSize)
		} else if len(data) == 0 {
			ln = 0
		}
		if lo > len(data) || lo+ln > len(data) {
			problems = append(problems, fmt.Sprintf("file %d block %d: [%d,%d) is outside the %d-byte file", h.FileIndex, h.BlockIndex, lo, lo+ln, len(data)))
			per[h.FileIndex] = append(per[h.FileIndex], fmt.Sprintf("%d:%d", h.WeakHash, ln))
			continue
		}
		sum := md5.Sum(data[lo : lo+ln])
		if !bytes.Equal(sum[:], h.StrongHash) {
			problems = append(problems, fmt.Sprintf("file %d block %d: strong hash is not the MD5 of bytes [%d,%d)", h.FileIndex, h.BlockIndex, lo, lo+ln))
		}
		per[h.FileIndex] = append(per[h.FileIndex], fmt.Sprintf("%d:%d", h.WeakHash, ln))
	}
	for i, f := range files {
		want := (len(f) + wvlib.BS - 1) / wvlib.BS
		if len(f) == 0 {
			want = 1
		}
		if len(per[i]) != want {
			problems = append(problems, fmt.Sprintf("file %d (%d bytes): %d hashes, expected %d", i, len(f), len(per[i]), want))
		}
		// a shorter final block, full blocks before it
		for k, s := range per[i] {
			var w, ln int
			fmt.Sscanf(s, "%d:%d", &w, &ln)
			wantLn := wvlib.BS
			if (k+1)*wvlib.BS > len(f) {
				wantLn = len(f) - k*wvlib.BS
			}
			if wantLn < 0 {
				wantLn = 0
			}
			if ln != wantLn {
				problems = append(problems, fmt.Sprintf("file %d block %d has length %d, expected %d", i, k, ln, wantLn))
			}
		}
	}
	strs := make([]string, len(files))
	for i := range per {
		strs[i] = strings.Join(per[i], ",")
	}
	return strings.Join(strs, ";"), problems
}

// evalPair diffs a materialised pair with the real code and asks the model about the same pair.
func evalPair(env *Env, m *wvlib.Model, oldDir, newDir string, comp Comp, slice *wvlib.Rng, askModel bool) (*PairEval, error) {
	res, err := diffDirs(oldDir, newDir, comp, slice)
	if err != nil {
		return nil, err
	}
	ev := &PairEval{Res: res}
	for _, f := range res.New.Files {
		d, err := os.ReadFile(newDir + "/" + f.Path)
		if err != nil {
			return nil, err
		}
		ev.NewFiles = append(ev.NewFiles, d)
	}
	for _, f := range res.Old.Files {
		d, err := os.ReadFile(oldDir + "/" + f.Path)
		if err != nil {
			return nil, err
		}
		ev.OldFiles = append(ev.OldFiles, d)
	}
	_, _, msgs, err := decodePatch(res.Patch)
	if err != nil {
		return nil, fmt.Errorf("decoding the patch just written: %v", err)
	}
	ev.ImplMsgs = canonMsgs(msgs)
	// diff-time signature, read back with the real reader
	sigInfo, err := pwr.ReadSignature(context.Background(), bytesSource(res.Sig))
	if err != nil {
		return nil, fmt.Errorf("reading the signature just written: %v", err)
	}
	var probs []string
	ev.ImplSigs, probs = sigCanon(ev.NewFiles, sigInfo.Hashes)
	ev.SigProblems = append(ev.SigProblems, probs...)
	if err := sigInfo.Container.EnsureEqual(res.New); err != nil {
		ev.SigProblems = append(ev.SigProblems, "signature container differs from the new build's container: "+err.Error())
	}
	// stand-alone producer must agree hash for hash
	alone, err := pwr.ComputeSignature(context.Background(), res.New, fspool.New(res.New, newDir), quietConsumer)
	if err != nil {
		return nil, err
	}
	if len(alone) != len(sigInfo.Hashes) {
		ev.SigProblems = append(ev.SigProblems, fmt.Sprintf("diff-time signature has %d hashes, stand-alone %d", len(sigInfo.Hashes), len(alone)))
	} else {
		for i := range alone {
			a, b := alone[i], sigInfo.Hashes[i]
			if a.FileIndex != b.FileIndex || a.BlockIndex != b.BlockIndex || a.WeakHash != b.WeakHash || a.ShortSize != b.ShortSize || !bytes.Equal(a.StrongHash, b.StrongHash) {
				ev.SigProblems = append(ev.SigProblems, fmt.Sprintf("hash %d differs between producers: diff-time %+v, stand-alone %+v", i, b, a))
				break
			}
		}
	}
	ev.ImplCounts = fmt.Sprintf("%d %d", res.Fresh, res.Reused)
	if askModel {
		args, clean := pairModelLine(env.Scratch, res.Old, res.New, oldDir, newDir)
		ans, merr := m.Ask(fmt.Sprintf("diffbuild %d %d%s", wvlib.BS, wsync.MaxDataOp, args))
		clean()
		if merr != nil {
			ev.ModelErr = merr
		} else {
			parts := strings.Split(ans, " | ")
			if len(parts) == 4 {
				ev.ModelMsgs, ev.ModelReplays, ev.ModelSigs, ev.ModelCounts = parts[0], parts[1], parts[2], parts[3]
			} else {
				ev.ModelErr = fmt.Errorf("unexpected model answer %q", trunc(ans, 200))
			}
		}
	}
	return ev, nil
}

func filesCanon(files [][]byte) string {
	s := make([]string, len(files))
	for i, f := range files {
		s[i] = fmt.Sprintf("%d %d", len(f), wvlib.Fnv(f))
	}
	return strings.Join(s, ";")
}
