package main

import (
	"fmt"
	"os"
	"sort"
	"strings"
	"syscall"

	"github.com/itchio/lake/tlc"

	"wv/internal/wvlib"
)

func init() { runners["C02"] = runC02 }

type C02Case struct {
	PairCase
	Clash     string `json:"clash,omitempty"`
	Optimized bool   `json:"optimized"`
	Repeats   int    `json:"repeats"`
}

// otherFsDir returns a fresh directory on a filesystem other than ref's (WV_OTHER_FS, /dev/shm), or "".
func otherFsDir(ref string) string {
	var a, b syscall.Stat_t
	if syscall.Stat(ref, &a) != nil {
		return ""
	}
	for _, cand := range []string{os.Getenv("WV_OTHER_FS"), "/dev/shm"} {
		if cand == "" || syscall.Stat(cand, &b) != nil || a.Dev == b.Dev {
			continue
		}
		if d, err := os.MkdirTemp(cand, "wv-stage-"); err == nil {
			return d
		}
	}
	return ""
}

// clashPair builds the path-kind-change shapes.
func clashPair(r *wvlib.Rng, shape string) (*wvlib.Build, *wvlib.Build) {
	x := r.Bytes(wvlib.BS + 100)
	y := r.Bytes(2*wvlib.BS + 7)
	z := r.Bytes(300)
	f := func(p string, d []byte) wvlib.BEntry { return wvlib.BEntry{Path: p, Kind: 'f', Data: d} }
	old, nw := &wvlib.Build{}, &wvlib.Build{}
	switch shape {
	case "dir->file-new": // a new file at a path that is a non-empty directory in the old build
		old.Entries = []wvlib.BEntry{f("d/x.bin", x), f("keep.bin", z)}
		nw.Entries = []wvlib.BEntry{f("d", r.Bytes(500)), f("keep.bin", z)}
	case "dir->file-renamed": // an old file renamed onto a path that is a non-empty directory
		old.Entries = []wvlib.BEntry{f("d/x.bin", x), f("y.bin", y)}
		nw.Entries = []wvlib.BEntry{f("d", y)}
	case "file->dir-containing-own-rename": // a directory where the old file was, holding that file renamed
		old.Entries = []wvlib.BEntry{f("f", x), f("keep.bin", z)}
		nw.Entries = []wvlib.BEntry{f("f/inner.bin", x), f("keep.bin", z)}
	case "dir->symlink-child-renamed-out": // a symlink where a directory was, one of its files renamed elsewhere
		old.Entries = []wvlib.BEntry{f("d/x.bin", x), f("keep.bin", z)}
		nw.Entries = []wvlib.BEntry{{Path: "d", Kind: 'l', Dest: "elsewhere"}, f("other/x.bin", x), f("keep.bin", z)}
	// ---- kind changes inside the guarantee
	case "symlink->file":
		old.Entries = []wvlib.BEntry{{Path: "s", Kind: 'l', Dest: "keep.bin"}, f("keep.bin", z)}
		nw.Entries = []wvlib.BEntry{f("s", x), f("keep.bin", z)}
	case "file->symlink":
		old.Entries = []wvlib.BEntry{f("s", x), f("keep.bin", z)}
		nw.Entries = []wvlib.BEntry{{Path: "s", Kind: 'l', Dest: "keep.bin"}, f("keep.bin", z)}
	case "symlink->dir":
		old.Entries = []wvlib.BEntry{{Path: "s", Kind: 'l', Dest: "nowhere"}, f("keep.bin", z)}
		nw.Entries = []wvlib.BEntry{f("s/in.bin", x), f("keep.bin", z)}
	case "emptydir->file":
		old.Entries = []wvlib.BEntry{{Path: "e", Kind: 'd'}, f("keep.bin", z)}
		nw.Entries = []wvlib.BEntry{f("e", x), f("keep.bin", z)}
	case "file->dir-not-source":
		old.Entries = []wvlib.BEntry{f("f", x), f("keep.bin", z)}
		nw.Entries = []wvlib.BEntry{f("f/new.bin", y), f("keep.bin", z)}
	case "temp-name-lookalike", "temp-name-lookalike-2":
		// a swap (both outputs get temporary names during commit) in a build that also holds files NAMED like those
		// temporary names
		k := 1
		if shape == "temp-name-lookalike-2" {
			k = 2
		}
		t1, t2 := fmt.Sprintf("a.bin.butler-rename-%d", k), fmt.Sprintf("b.bin.butler-rename-%d", 3-k)
		old.Entries = []wvlib.BEntry{f("a.bin", x), f("b.bin", y), f(t1, z), f(t2, r.Bytes(70))}
		nw.Entries = []wvlib.BEntry{f("a.bin", y), f("b.bin", x), f(t1, z), f(t2, old.Entries[3].Data)}
	// ---- shapes the model's analysis singled out (Props/C02Kinds.lean, g5..g8)
	case "dir->symlink-into-kept-dir": // g5: the ghost a/f is deleted THROUGH the new symlink a -> b
		old.Entries = []wvlib.BEntry{f("a/f.bin", x), f("b/f.bin", y), f("keep.bin", z)}
		nw.Entries = []wvlib.BEntry{{Path: "a", Kind: 'l', Dest: "b"}, f("b/f.bin", y), f("keep.bin", z)}
	case "symlink->file-copy-of-its-target": // g6: s -> b becomes a regular file holding old b, b itself is patched
		y2 := append([]byte(nil), y...)
		y2[len(y2)/2] ^= 1
		old.Entries = []wvlib.BEntry{{Path: "s", Kind: 'l', Dest: "b.bin"}, f("b.bin", y), f("keep.bin", z)}
		nw.Entries = []wvlib.BEntry{f("s", y), f("b.bin", y2), f("keep.bin", z)}
	case "emptydir->file-copy": // g7: an empty directory becomes a file that is a copy of an unchanged old file
		old.Entries = []wvlib.BEntry{{Path: "e", Kind: 'd'}, f("x.bin", x), f("keep.bin", z)}
		nw.Entries = []wvlib.BEntry{f("e", x), f("x.bin", x), f("keep.bin", z)}
	case "file->symlink-file-renamed": // g8: a file becomes a symlink, the file itself is renamed elsewhere
		old.Entries = []wvlib.BEntry{f("a.bin", x), f("keep.bin", z)}
		nw.Entries = []wvlib.BEntry{{Path: "a.bin", Kind: 'l', Dest: "keep.bin"}, f("c.bin", x), f("keep.bin", z)}
	// ---- the same with NESTED content below the replaced directory
	case "dir->file-renamed-nested": // y.bin renamed onto d, while d/sub/x.bin (two levels down) is renamed elsewhere
		old.Entries = []wvlib.BEntry{f("d/sub/x.bin", x), f("d/top.bin", z), f("y.bin", y)}
		nw.Entries = []wvlib.BEntry{f("d", y), f("elsewhere/x.bin", x)}
	case "dir->symlink-into-kept-dir-nested": // current -> v2, both with bin/game two levels down
		old.Entries = []wvlib.BEntry{f("current/bin/game", x), f("current/bin/data", y), f("v2/bin/game", x), f("keep.bin", z)}
		nw.Entries = []wvlib.BEntry{{Path: "current", Kind: 'l', Dest: "v2"}, f("v2/bin/game", x), f("v2/bin/data", y), f("keep.bin", z)}
	case "file->dir-nested-own-rename": // f becomes a directory and lives on two levels down inside it
		old.Entries = []wvlib.BEntry{f("f", x), f("keep.bin", z)}
		nw.Entries = []wvlib.BEntry{f("f/a/b/inner.bin", x), f("f/a/copy.bin", x), f("keep.bin", z)}
	case "aside-name-lookalike": // a build that holds a file NAMED like the temporary name a source steps aside to
		old.Entries = []wvlib.BEntry{f("f", x), f("f.butler-aside-1", z), f("g", y), f("g.butler-aside-2", r.Bytes(40))}
		nw.Entries = []wvlib.BEntry{f("f/inner.bin", x), f("f.butler-aside-1", z), f("g/deep/inner.bin", y), f("g/copy.bin", y), f("g.butler-aside-2", old.Entries[3].Data)}
	case "dir->symlink-plain":
		old.Entries = []wvlib.BEntry{f("d/x.bin", x), f("keep.bin", z)}
		nw.Entries = []wvlib.BEntry{{Path: "d", Kind: 'l', Dest: "elsewhere"}, f("keep.bin", z)}
	}
	old.Normalize()
	nw.Normalize()
	return old, nw
}

// all eight failed until F8 (1)-(4), F25, F26 and F27 were repaired; they stay as regression shapes
var clashShapes = []string{"dir->file-new", "dir->file-renamed", "file->dir-containing-own-rename", "dir->symlink-child-renamed-out",
	"dir->symlink-into-kept-dir", "symlink->file-copy-of-its-target", "emptydir->file-copy", "file->symlink-file-renamed",
	"dir->file-renamed-nested", "dir->symlink-into-kept-dir-nested", "file->dir-nested-own-rename"}
var benignKindShapes = []string{"symlink->file", "file->symlink", "symlink->dir", "emptydir->file", "file->dir-not-source", "dir->symlink-plain", "temp-name-lookalike", "temp-name-lookalike-2", "aside-name-lookalike"}

func writeBuildListing(path string, c *tlc.Container, b *wvlib.Build) {
	writeSignedListing(path, c, b, nil)
}

func c02One(env *Env, m *wvlib.Model, c *C02Case) {
	var old, nw *wvlib.Build
	if c.Clash != "" {
		old, nw = clashPair(wvlib.NewRng(c.Seed), c.Clash)
	} else {
		old, nw = c.gen()
		if c.Opts.KindClash {
			// one or two paths change kind between the builds, at random
			c.Rel = append(c.Rel, wvlib.AddKindClashes(wvlib.NewRng(c.Seed^0xc1a5), old, nw)...)
		}
	}
	base, od, nd, clean := writePair(env.Scratch, old, nw)
	defer clean()
	res, err := diffDirs(od, nd, Comp{"none", 0}, nil)
	if err != nil {
		env.R.Violate("diff-error", err.Error(), c)
		return
	}
	patch := res.Patch
	if c.Optimized {
		o := optimizeReal(patch, od, nd, &C07Case{Force: true, OutComp: Comp{"none", 0}, Partitions: 1}, res)
		if o.err != "" {
			env.R.Note("optimizer: %s", o.err)
			return
		}
		patch = o.patch
	}
	suffix := ""
	if c.Clash != "" {
		suffix = ":" + c.Clash
	} else if c.Opts.KindClash {
		// theorem C02.commit_correct: since the repair of the last shape of finding F8 the commit is correct for EVERY
		// pair of well-formed builds, whatever kinds change (no predicate left to evaluate): no suffix, so any failure
		// is an unlisted violation
		env.R.Count("kind-changes:random-pairs", 1)
	}
	reps := c.Repeats
	if reps < 1 {
		reps = 1
	}
	impl := ""
	for rep := 0; rep < reps; rep++ {
		work := fmt.Sprintf("%s/work%d", base, rep)
		stage := fmt.Sprintf("%s/stage%d", base, rep)
		if rep == reps-1 && reps >= 2 {
			// configuration: the stage folder on another filesystem (renames into the build fail with EXDEV and the
			// bowl falls back to copying)
			if d := otherFsDir(base); d != "" {
				stage = d + "/stage"
				defer os.RemoveAll(d)
				env.R.Count("stage-on-another-filesystem", 1)
			}
		}
		if err := old.Write(work); err != nil {
			panic(err)
		}
		frameOK := true
		aerr := applyOverlay(patch, work, stage, func() {
			// right before Commit the directory must still be the old build, untouched
			pre, _ := wvlib.ReadTree(work)
			if d := wvlib.DiffTrees(pre, old); d != "" {
				frameOK = false
				env.R.Violate("old-build-modified-before-commit"+suffix, d, c)
			}
		})
		_ = frameOK
		cur := "err"
		if aerr != nil {
			cls := "commit-fails"
			if strings.HasPrefix(aerr.Error(), "PANIC") {
				cls = "commit-panics"
			}
			env.R.Violate(cls+suffix, aerr.Error(), c)
		} else {
			got, _ := wvlib.ReadTree(work)
			if d := wvlib.DiffTrees(got, nw); d != "" {
				env.R.Violate("in-place-tree-differs"+suffix, d, c)
			}
			cur = "ok " + treeCanonLines(got)
		}
		if rep == 0 {
			impl = cur
		} else if cur != impl {
			env.R.Violate("result-depends-on-map-order"+suffix, firstDiffContext(cur, impl), c)
		}
		os.RemoveAll(work)
		os.RemoveAll(stage)
	}
	// ---- model
	_, _, msgs, derr := decodePatch(patch)
	if derr == nil {
		mf, cl := writeMsgFile(env.Scratch, msgs)
		ol, nl := base+"/old.lst", base+"/new.lst"
		writeBuildListing(ol, res.Old, old)
		writeBuildListing(nl, res.New, nw)
		ans, merr := m.Ask(fmt.Sprintf("commit %d %s %s %s", wvlib.BS, mf, ol, nl))
		cl()
		mcmp := ans
		if strings.HasPrefix(ans, "ok ") {
			var ls []string
			for _, l := range strings.Split(ans[3:], ";") {
				if l != "" {
					ls = append(ls, l)
				}
			}
			sort.Strings(ls)
			mcmp = "ok " + strings.Join(ls, ";")
		} else if strings.HasPrefix(ans, "err") {
			mcmp = "err"
		}
		if merr != nil {
			env.R.Disagree(c, trunc(impl, 200), "MODEL-DIED", "n/a")
		} else if mcmp != impl {
			env.R.Disagree(c, "tree: "+firstDiffContext(impl, mcmp), "tree: "+firstDiffContext(mcmp, impl), c.Clash)
		}
	}
	env.R.Eval(c.Seed^uint64(len(c.Clash))<<32, len(c.Rel) > 0 || c.Clash != "")
	for _, r := range c.Rel {
		env.R.Count("rel:"+r, 1)
	}
	if c.Clash != "" {
		env.R.Count("kind-change:"+c.Clash, 1)
	}
}

func runC02(env *Env) {
	R := env.R
	R.Rule = "build pairs from the path-relation generator (unchanged, patched, renamed, swapped, chains, duplicated with/without the original, patched+rename source, grow/shrink/empty, deleted dirs, symlinks added/removed/retargeted), plain and optimized patches, each applied in place several times (fresh Go map order each time), snapshot of the directory right before Commit; plus ten path-kind-change shapes (four known clashes); distinct by seed; non-trivial = at least one relation or kind change"
	if env.Replay != "" {
		var c C02Case
		replayCase(env, &c)
		m, _ := wvlib.StartModel()
		defer m.Close()
		c02One(env, m, &c)
		printOutcome(env)
		return
	}
	n := 200
	reps := 4
	if env.Thorough() {
		n, reps = 3000, 12
	}
	rng := wvlib.NewRng(env.Seed)
	var cases []*C02Case
	for _, sh := range append(append([]string{}, clashShapes...), benignKindShapes...) {
		rp := 2
		if strings.HasPrefix(sh, "temp-name") || strings.HasPrefix(sh, "aside-name") || strings.HasSuffix(sh, "-nested") || sh == "dir->file-renamed" {
			rp = 10 // which output gets which number / which group is visited first depends on the map order
		}
		cases = append(cases, &C02Case{PairCase: PairCase{Seed: rng.Next()}, Clash: sh, Repeats: rp})
	}
	for i := 0; i < n; i++ {
		cases = append(cases, &C02Case{PairCase: PairCase{Seed: rng.Next(), Opts: wvlib.PairOpts{MaxFiles: 6, Symlinks: true, SmallOnly: i%4 != 0}}, Optimized: i%5 == 3, Repeats: reps})
	}
	// pairs in which one or two paths change kind at random: every one must commit correctly (theorem commit_correct)
	nk := n / 2
	for i := 0; i < nk; i++ {
		cases = append(cases, &C02Case{PairCase: PairCase{Seed: rng.Next(), Opts: wvlib.PairOpts{MaxFiles: 5, Symlinks: true, SmallOnly: true, KindClash: true}}, Optimized: i%5 == 3, Repeats: reps})
	}
	models := startModels(env)
	wvlib.ParallelDo(len(cases), env.Workers, func(i int) {
		m := <-models
		defer func() { models <- m }()
		c02One(env, m, cases[i])
		if i == 0 || i == 11 || i == 12 {
			R.Sample(cases[i])
		}
	})
	stopModels(env, models)
}
