package main

import (
	"encoding/binary"
	"encoding/hex"
	"fmt"
	"math"

	"github.com/golang/protobuf/proto"
	"github.com/itchio/wharf/bsdiff"
	"github.com/itchio/wharf/pwr"

	"wv/internal/wvlib"
)

// Correspondence for Model/Proto.lean: the protobuf step between frame bodies and the field records the
// patcher model starts from. Real side: proto.Marshal / proto.Unmarshal of the generated message types.
// Model side: `protoenc` / `protodec` of the driver. No oracle other than the two (the theorems of
// Props/C13Proto.lean are about the model); a difference is a disagreement.

var protoEdgeInts = []int64{0, 0, 1, 1, 2, -1, 127, 128, 2049, 16383, 16384, 1 << 31, 1<<31 - 1, -(1 << 31), 1 << 32, 1<<32 + 5,
	math.MaxInt64, math.MinInt64, 1 << 62, -(1 << 40)}

func protoInt(r *wvlib.Rng) int64 {
	if r.Intn(4) == 0 {
		return int64(r.Next())
	}
	return protoEdgeInts[r.Intn(len(protoEdgeInts))]
}

func protoBytes(r *wvlib.Rng) []byte {
	n := r.Pick(0, 0, 1, 2, 5, 127, 128, 129, 300)
	if n == 0 {
		return nil
	}
	return r.Bytes(n)
}

func showProto(kind string, m proto.Message) string {
	switch v := m.(type) {
	case *pwr.SyncHeader:
		return fmt.Sprintf("H %d %d", int32(v.Type), v.FileIndex)
	case *pwr.BsdiffHeader:
		return fmt.Sprintf("B %d", v.TargetIndex)
	case *bsdiff.Control:
		e := 0
		if v.Eof {
			e = 1
		}
		return fmt.Sprintf("C %s %s %d %d", hx(v.Add), hx(v.Copy), v.Seek, e)
	case *pwr.SyncOp:
		return fmt.Sprintf("O %d %d %d %d %s", int32(v.Type), v.FileIndex, v.BlockIndex, v.BlockSpan, hx(v.Data))
	}
	return "?"
}

func newProto(kind string) proto.Message {
	switch kind {
	case "H":
		return &pwr.SyncHeader{}
	case "B":
		return &pwr.BsdiffHeader{}
	case "C":
		return &bsdiff.Control{}
	}
	return &pwr.SyncOp{}
}

func genProto(r *wvlib.Rng, kind string) proto.Message {
	switch kind {
	case "H":
		return &pwr.SyncHeader{Type: pwr.SyncHeader_Type(int32(protoInt(r))), FileIndex: protoInt(r)}
	case "B":
		return &pwr.BsdiffHeader{TargetIndex: protoInt(r)}
	case "C":
		return &bsdiff.Control{Add: protoBytes(r), Copy: protoBytes(r), Seek: protoInt(r), Eof: r.Intn(3) == 0}
	}
	return &pwr.SyncOp{Type: pwr.SyncOp_Type(int32(protoInt(r))), FileIndex: protoInt(r), BlockIndex: protoInt(r),
		BlockSpan: protoInt(r), Data: protoBytes(r)}
}

// rawRecord writes a record field by field: declared and undeclared field numbers, every wire type incl. (nested) groups, right and wrong wire types for declared fields, repeated fields, non-minimal and
// over-long uvarints, invalid field numbers; optionally cut at a random byte.
func rawRecord(r *wvlib.Rng) ([]byte, string) {
	var b []byte
	tag := "raw"
	uv := func(x uint64) {
		var t [binary.MaxVarintLen64]byte
		n := binary.PutUvarint(t[:], x)
		b = append(b, t[:n]...)
	}
	nf := r.Intn(7)
	for i := 0; i < nf; i++ {
		field := uint64(r.Pick(1, 1, 2, 3, 4, 5, 16, 17, 6, 1<<29-1))
		wt := uint64(r.Pick(0, 0, 0, 2, 2, 2, 1, 5))
		switch r.Intn(40) {
		case 0:
			field = 0
			tag = "raw-field0"
		case 1:
			field = 1 << 29
			tag = "raw-field-big"
		case 2:
			field = uint64(r.Next()) >> 3
			tag = "raw-field-random"
		case 3:
			wt = uint64(r.Pick(4, 6, 7))
			tag = "raw-bad-wiretype"
		}
		if r.Intn(9) == 0 {
			// a (deprecated) group: unknown to every modelled message, skipped up to its end tag
			tag = "raw-group"
			var grp func(num uint64, depth int)
			grp = func(num uint64, depth int) {
				uv(num<<3 | 3)
				for k := r.Intn(4); k > 0; k-- {
					in := uint64(r.Pick(1, 2, 5, 16, 1<<29-1, 1<<29, 1<<31-1))
					switch r.Intn(8) {
					case 0:
						if depth < 4 {
							grp(in, depth+1)
						}
					case 1:
						uv(in<<3 | 2)
						p := protoBytes(r)
						uv(uint64(len(p)))
						b = append(b, p...)
					case 2:
						uv(in<<3 | 1)
						b = append(b, r.Bytes(8)...)
					case 3:
						uv(in<<3 | 5)
						b = append(b, r.Bytes(4)...)
					case 4:
						if r.Intn(4) == 0 {
							in = uint64(r.Pick(0, 1<<31, 1<<40))
							tag = "raw-group-bad-field"
						}
						uv(in<<3 | 0)
						uv(uint64(protoInt(r)))
					default:
						uv(in<<3 | 0)
						uv(uint64(protoInt(r)))
					}
				}
				switch r.Intn(10) {
				case 0:
					uv((num+1)<<3 | 4) // end tag of another group
					tag = "raw-group-wrong-end"
				case 1:
					tag = "raw-group-unterminated"
				case 2:
					uv(num<<3 | uint64(r.Pick(6, 7)))
					tag = "raw-group-bad-wiretype"
				default:
					uv(num<<3 | 4)
				}
			}
			grp(field, 0)
			continue
		}
		uv(field<<3 | wt)
		switch wt {
		case 0:
			switch r.Intn(12) {
			case 0: // non-minimal encoding
				b = append(b, 0x80|byte(r.Intn(128)), 0x80, 0x00)
			case 1: // 10 bytes, last one > 1: overflow
				for k := 0; k < 9; k++ {
					b = append(b, 0xff)
				}
				b = append(b, byte(2+r.Intn(100)))
				tag = "raw-varint-overflow"
			case 2: // 11 bytes
				for k := 0; k < 10; k++ {
					b = append(b, 0x80|byte(r.Intn(128)))
				}
				b = append(b, 0x01)
				tag = "raw-varint-long"
			default:
				uv(uint64(protoInt(r)))
			}
		case 2:
			p := protoBytes(r)
			if r.Intn(15) == 0 {
				uv(uint64(len(p) + 1 + r.Intn(1000)))
				tag = "raw-length-past-end"
			} else {
				uv(uint64(len(p)))
			}
			b = append(b, p...)
		case 1:
			b = append(b, r.Bytes(8)...)
		case 5:
			b = append(b, r.Bytes(4)...)
		}
	}
	if len(b) > 1 && r.Intn(4) == 0 {
		b = b[:1+r.Intn(len(b)-1)]
		tag += "+cut"
	}
	return b, tag
}

func c13Proto(env *Env, m *wvlib.Model, c *C13Case) {
	r := wvlib.NewRng(c.Seed)
	kinds := []string{"H", "O", "B", "C"}
	nontrivial := false
	for it := 0; it < 40; it++ {
		kind := kinds[r.Intn(4)]
		var body []byte
		tag := "marshalled"
		if it%2 == 0 {
			msg := genProto(r, kind)
			var err error
			body, err = proto.Marshal(msg)
			if err != nil {
				env.R.Violate("marshal-fails", err.Error(), c)
				return
			}
			// encode direction: the model writes the same bytes
			ans, err := m.Ask("protoenc " + showProto(kind, msg))
			if err != nil || ans != hx(body) {
				env.R.Disagree(c, "marshal "+showProto(kind, msg)+" = "+hx(body), ans, "n/a")
			}
			// round trip in the real code (the property itself, at the message level)
			back := newProto(kind)
			if err := proto.Unmarshal(body, back); err != nil || showProto(kind, back) != showProto(kind, msg) {
				env.R.Violate("message-changed-by-roundtrip", showProto(kind, msg)+" came back as "+showProto(kind, back), c)
			}
			if len(body) > 0 {
				nontrivial = true
			}
		} else {
			body, tag = rawRecord(r)
		}
		// decode direction: the bytes read as EVERY message type (the patcher reads a frame as whatever it expects)
		for _, k := range kinds {
			got := newProto(k)
			impl := "err"
			if err := proto.Unmarshal(body, got); err == nil {
				impl = showProto(k, got)
			}
			ans, err := m.Ask("protodec " + k + " " + hx(body))
			if err != nil || ans != impl {
				env.R.Disagree(c, "unmarshal "+k+" "+hex.EncodeToString(body)+" = "+impl, ans, "n/a")
			}
			if impl == "err" {
				env.R.Count("proto:"+tag+":err", 1)
			} else {
				env.R.Count("proto:"+tag+":ok", 1)
			}
		}
	}
	env.R.Eval(c.Seed^0x70726f746f, nontrivial)
	env.R.Count("shape:proto", 1)
}
