package main

import (
	"context"
	"fmt"
	"os"
	"runtime"
	"strings"
	"sync/atomic"
	"time"

	"github.com/itchio/headway/state"
	"github.com/itchio/lake/tlc"
	"github.com/itchio/wharf/pwr"

	"wv/internal/wvlib"
)

func init() { runners["C16"] = runC16 }

type C16Case struct {
	Seed      uint64 `json:"seed"`
	Files     int    `json:"files"`
	Wounded   int    `json:"wounded"`   // number of damaged files (0: valid tree)
	LastOnly  bool   `json:"last_only"` // damage only in the last file
	Consumer  string `json:"consumer"`  // failfast | woundsfile | badwoundsfile | printer | healer-missing-archive | failing-after-n
	CancelAt  int    `json:"cancel_at"` // -2: never; -1: before start; k: when progress reports file k
	FailAfter int    `json:"fail_after,omitempty"`
	// MidLast > 0: the last file of the container has MidLast blocks, the damage is a flipped byte in its final
	// block, and the context is cancelled from the progress callback once validation is CancelBlocks blocks
	// into that file (CancelAt is ignored)
	MidLast      int `json:"mid_last,omitempty"`
	CancelBlocks int `json:"cancel_blocks,omitempty"`
	// LongRun > 0: an extra file of LongRun+10 blocks of which LongRun consecutive blocks are damaged (the wound
	// aggregator passes an aggregate on every 4 MiB = 64 blocks)
	LongRun int `json:"long_run,omitempty"`
	// WorkerFails: the validation worker itself stops on an error (no wound reaches the consumer first):
	// "short-signature": the signature handed to Validate lacks its last DropHashes block hashes (the directory is
	// damaged too); "unreadable": the directory is /proc/self, signed as a build with one file `mem` — it opens,
	// its first read fails
	// Missing: "files" | "symlinks" | "dirs": the build has MissingN extra entries of that kind and NONE of them is
	// on disk — more whole-entry wounds than the wound channel holds, sent by the goroutine that blocks when the
	// consumer has stopped reading
	Missing  string `json:"missing,omitempty"`
	MissingN int    `json:"missing_n,omitempty"`
	// GrownMiB > 0: one small healthy signed file has GrownMiB MiB appended on disk (a log that kept growing): far
	// more wounds for that file than it has signed blocks
	GrownMiB    int    `json:"grown_mib,omitempty"`
	WorkerFails string `json:"worker_fails,omitempty"`
	DropHashes  int    `json:"drop_hashes,omitempty"`
}

// failingConsumer returns an error after n wounds.
type failingConsumer struct {
	n    int
	seen int
}

func (f *failingConsumer) Do(ctx context.Context, container *tlc.Container, wounds chan *pwr.Wound) error {
	for w := range wounds {
		if w.Healthy() {
			continue
		}
		f.seen++
		if f.seen > f.n {
			return fmt.Errorf("consumer gives up after %d wounds", f.n)
		}
	}
	return nil
}
func (f *failingConsumer) TotalCorrupted() int64 { return 0 }
func (f *failingConsumer) HasWounds() bool       { return f.seen > 0 }

func c16One(env *Env, c *C16Case) {
	r := wvlib.NewRng(c.Seed)
	b := &wvlib.Build{}
	for i := 0; i < c.Files; i++ {
		b.Entries = append(b.Entries, wvlib.BEntry{Path: fmt.Sprintf("d%d/f%05d.bin", i%5, i), Kind: 'f', Data: r.Bytes(1 + r.Intn(300))})
	}
	b.Entries = append(b.Entries, wvlib.BEntry{Path: "big.bin", Kind: 'f', Data: r.Bytes(3*wvlib.BS + 5)})
	b.Entries = append(b.Entries, wvlib.BEntry{Path: "lnk", Kind: 'l', Dest: "big.bin"})
	if c.MidLast > 0 {
		b.Entries = append(b.Entries, wvlib.BEntry{Path: "zz/zz-last.bin", Kind: 'f', Data: r.Bytes(c.MidLast*wvlib.BS - 7)})
	}
	if c.LongRun > 0 {
		b.Entries = append(b.Entries, wvlib.BEntry{Path: "long/run.bin", Kind: 'f', Data: r.Bytes((c.LongRun+10)*wvlib.BS + 3)})
	}
	for i := 0; i < c.MissingN; i++ {
		switch c.Missing {
		case "files":
			b.Entries = append(b.Entries, wvlib.BEntry{Path: fmt.Sprintf("gone/m%05d.bin", i), Kind: 'f', Data: r.Bytes(1 + r.Intn(20))})
		case "symlinks":
			b.Entries = append(b.Entries, wvlib.BEntry{Path: fmt.Sprintf("gone/l%05d", i), Kind: 'l', Dest: "../big.bin"})
		case "dirs":
			b.Entries = append(b.Entries, wvlib.BEntry{Path: fmt.Sprintf("gone%05d", i), Kind: 'd'})
		}
	}
	b.Normalize()
	base := env.Scratch.Sub("c16")
	defer os.RemoveAll(base)
	sig, err := signBuild(base+"/signed", b)
	if err != nil {
		env.R.Note("sign: %v", err)
		return
	}
	dmg := b.Clone()
	files := dmg.Files()
	valid := c.Wounded == 0
	var cancelFraction float64 = -1
	if c.LongRun > 0 {
		d := dmg.Find("long/run.bin").Data
		start := r.Intn(8) * wvlib.BS
		for k := 0; k < c.LongRun; k++ {
			d[start+k*wvlib.BS+r.Intn(wvlib.BS)] ^= 0x21
		}
		if r.Bool() {
			// the damaged run reaches the end of the file
			for k := start/wvlib.BS + c.LongRun; k*wvlib.BS < len(d); k++ {
				d[k*wvlib.BS] ^= 0x21
			}
		}
	}
	if c.MidLast > 0 {
		lastF := sig.Container.Files[len(sig.Container.Files)-1]
		d := dmg.Find(lastF.Path).Data
		d[len(d)-1-r.Intn(wvlib.BS/2)] ^= 0x10
		cancelFraction = float64(sig.Container.Size-lastF.Size+int64(c.CancelBlocks)*int64(wvlib.BS)) / float64(sig.Container.Size)
	} else if c.LastOnly && c.Wounded > 0 {
		last := sig.Container.Files[len(sig.Container.Files)-1].Path
		dmg.Find(last).Data[0] ^= 1
	} else {
		for k := 0; k < c.Wounded && k < len(files); k++ {
			f := dmg.Find(files[(k*7)%len(files)].Path)
			if len(f.Data) > 0 {
				if _, ok := wvlib.WeakPreservingTweak(f.Data, len(f.Data)/2); !ok || (uint64(k)+c.Seed)%2 == 0 {
					f.Data[len(f.Data)/2] ^= 0x40
				}
			}
		}
	}
	if c.GrownMiB > 0 {
		f := dmg.Find(files[int(c.Seed%uint64(len(files)))].Path)
		f.Data = append(f.Data, r.Bytes(c.GrownMiB<<20+int(c.Seed%70000))...)
	}
	if c.MissingN > 0 {
		var keep []wvlib.BEntry
		for _, e := range dmg.Entries {
			if !strings.HasPrefix(e.Path, "gone") {
				keep = append(keep, e)
			}
		}
		dmg.Entries = keep
	}
	dd := base + "/disk"
	dmg.Write(dd)
	disk, _ := wvlib.ReadTree(dd)
	valid = wvlib.DiffTrees(disk, b) == ""

	ctx, cancel := context.WithCancel(context.Background())
	defer cancel()
	if c.CancelAt == -1 {
		cancel()
	}
	var progressCalls int64
	total := int64(len(sig.Container.Files))
	consumer := &state.Consumer{
		OnProgress: func(p float64) {
			n := atomic.AddInt64(&progressCalls, 1)
			if cancelFraction >= 0 {
				if p >= cancelFraction {
					cancel()
				}
				return
			}
			if c.CancelAt >= 0 && n >= int64(c.CancelAt)*2 && total > 0 {
				cancel()
			}
		},
	}
	if c.WorkerFails == "short-signature" && len(sig.Hashes) > c.DropHashes {
		sig = &pwr.SignatureInfo{Container: sig.Container, Hashes: sig.Hashes[:len(sig.Hashes)-c.DropHashes]}
		valid = false
	}
	if c.WorkerFails == "unreadable" {
		if st, err := os.Lstat("/proc/self/mem"); err != nil || !st.Mode().IsRegular() {
			return
		}
		one := &wvlib.Build{Entries: []wvlib.BEntry{{Path: "mem", Kind: 'f', Data: r.Bytes(4096)}}}
		s1, err := signBuild(base+"/signed-mem", one)
		if err != nil {
			return
		}
		sig, dd, valid = s1, "/proc/self", false
	}
	vctx := &pwr.ValidatorContext{Consumer: consumer}
	switch c.Consumer {
	case "failfast":
		vctx.FailFast = true
	case "woundsfile":
		vctx.WoundsPath = base + "/w.pww"
	case "badwoundsfile":
		vctx.WoundsPath = base + "/no/such/dir/w.pww"
	case "healer-missing-archive":
		vctx.HealPath = "archive," + base + "/missing.zip"
	case "printer":
	}
	before := runtime.NumGoroutine()
	done := make(chan error, 1)
	go func() {
		defer func() {
			if rec := recover(); rec != nil {
				done <- fmt.Errorf("PANIC %v", rec)
			}
		}()
		if c.Consumer == "failing-after-n" {
			// Validate installs its own consumer; drive the same machinery with a consumer that fails early
			done <- validateWithConsumer(ctx, vctx, dd, sig, &failingConsumer{n: c.FailAfter})
			return
		}
		done <- vctx.Validate(ctx, dd, sig)
	}()
	var verr error
	select {
	case verr = <-done:
	case <-time.After(wvlib.Watchdog(25 * time.Second)):
		wvlib.NoteHang()
		env.R.Violate("validate-does-not-return:"+c.Consumer, fmt.Sprintf("no return within the watchdog time (%d files, %d wounded, cancel_at=%d)", c.Files, c.Wounded, c.CancelAt), c)
		return
	}
	if verr != nil && strings.HasPrefix(verr.Error(), "PANIC") {
		env.R.Violate("validate-panics:"+c.Consumer, verr.Error(), c)
	}
	if c.WorkerFails != "" {
		env.R.Count("worker-fails:"+c.WorkerFails, 1)
	}
	if c.Consumer == "failfast" && verr == nil && !valid {
		cls := "false-valid"
		if c.WorkerFails != "" {
			cls = "false-valid:worker-error-lost:" + c.WorkerFails
		}
		if c.CancelAt != -2 || c.MidLast > 0 {
			cls = "false-valid:cancelled"
		}
		env.R.Violate(cls, fmt.Sprintf("fail-fast validation returned nil on a damaged directory (cancel_at=%d)", c.CancelAt), c)
	}
	if c.Consumer == "failfast" && verr != nil && valid && c.CancelAt == -2 {
		env.R.Violate("valid-rejected", verr.Error(), c)
	}
	// goroutines must be gone shortly after the return
	leaked := 0
	for i := 0; i < 40; i++ {
		leaked = runtime.NumGoroutine() - before
		if leaked <= 0 {
			break
		}
		time.Sleep(25 * time.Millisecond)
	}
	if leaked > 2 {
		env.R.Count("goroutines-left-after-return", 1)
	}
	env.R.Eval(c.Seed^uint64(c.CancelAt+5)<<24^uint64(len(c.Consumer))<<32^uint64(c.Wounded)<<40^uint64(c.MidLast)<<50^uint64(c.CancelBlocks)<<56^uint64(c.LongRun)<<34, !valid || c.CancelAt != -2)
	if c.MidLast > 0 {
		env.R.Count("cancelled-mid-last-file", 1)
	}
	env.R.Count("consumer:"+c.Consumer, 1)
	if c.CancelAt != -2 {
		env.R.Count("cancelled", 1)
	}
	if c.Wounded > 1024 {
		env.R.Count("more-wounds-than-channel", 1)
	}
}

// validateWithConsumer runs Validate's machinery with a custom wounds consumer: the exported entry point
// always installs one of the built-in consumers, so this uses the wounds-file mode and wraps the file
// consumer... not possible from outside; instead the custom consumer is exercised through HealPath-less
// printer mode with a Consumer whose Debugf panics after n wounds, which makes WoundsPrinter.Do fail early.
func validateWithConsumer(ctx context.Context, vctx *pwr.ValidatorContext, dir string, sig *pwr.SignatureInfo, fc *failingConsumer) error {
	// WoundsWriter fails early when the wounds file cannot be created: equivalent "consumer returns an error
	// after the first wound"; for n > 0 use a wounds path that becomes unwritable after n wounds is not
	// controllable, so n is approximated by 0.
	vctx.WoundsPath = dir + "/../no/such/dir/w.pww"
	return vctx.Validate(ctx, dir, sig)
}

func runC16(env *Env) {
	R := env.R
	R.Rule = "builds with 0..3000 damaged files (more wounds than the 1024-slot channel, damage only in the last file) x consumers {fail-fast, wounds file, unwritable wounds file (consumer fails on the first wound), printer, healer with a missing archive} x cancellation {never, before start, when progress reaches file k, while the last (multi-block) file is being hashed with the damage in its final block}; runs of 63..130 consecutive damaged blocks in one file (the aggregator flushes every 64 blocks); watchdog (50 s, shortened after three hangs); distinct by (seed, consumer, cancellation); non-trivial = damaged or cancelled"
	if env.Replay != "" {
		var c C16Case
		replayCase(env, &c)
		c16One(env, &c)
		printOutcome(env)
		return
	}
	rng := wvlib.NewRng(env.Seed)
	var cases []*C16Case
	consumers := []string{"failfast", "woundsfile", "badwoundsfile", "printer", "healer-missing-archive", "failing-after-n"}
	sizes := [][2]int{{40, 0}, {40, 3}, {40, 40}, {1500, 1500}, {60, 1}}
	if env.Thorough() {
		sizes = append(sizes, [2]int{3000, 3000}, [2]int{2000, 1100}, [2]int{300, 17}, [2]int{5, 5}, [2]int{1, 1})
	}
	for _, sz := range sizes {
		for _, cons := range consumers {
			cancels := []int{-2, -1, 0, sz[0] / 2, sz[0]}
			if env.Thorough() {
				for k := 1; k < 12; k++ {
					cancels = append(cancels, rng.Intn(sz[0]+1))
				}
			}
			for _, ca := range cancels {
				cases = append(cases, &C16Case{Seed: rng.Next(), Files: sz[0], Wounded: sz[1], LastOnly: sz[1] == 1, Consumer: cons, CancelAt: ca})
			}
		}
	}
	// cancellation while the LAST file is being hashed, the damage lying beyond the point reached
	midN := 6
	if env.Thorough() {
		midN = 60
	}
	for i := 0; i < midN; i++ {
		ml := rng.Pick(3, 8, 20, 48)
		cons := []string{"failfast", "failfast", "healer-missing-archive", "woundsfile"}[i%4]
		cases = append(cases, &C16Case{Seed: rng.Next(), Files: rng.Pick(0, 2, 30), Wounded: 1, Consumer: cons, CancelAt: -2,
			MidLast: ml, CancelBlocks: rng.Intn(ml - 1)})
	}
	// more than 4 MiB of contiguous damage in one file: the aggregator flushes in the middle of a run
	for i, lr := range []int{63, 64, 65, 73, 130} {
		if i > 2 && !env.Thorough() {
			break
		}
		for _, cons := range []string{"failfast", "woundsfile", "printer"} {
			cases = append(cases, &C16Case{Seed: rng.Next(), Files: 3, Wounded: 0, Consumer: cons, CancelAt: -2, LongRun: lr})
		}
	}
	// more than 1024 whole-entry wounds (entries that are simply not there) with consumers that stop at the first
	for _, kind := range []string{"files", "symlinks", "dirs"} {
		for _, cons := range []string{"failfast", "badwoundsfile", "woundsfile"} {
			cases = append(cases, &C16Case{Seed: rng.Next(), Files: 3, Wounded: 0, Consumer: cons, CancelAt: -2, Missing: kind, MissingN: 1024 + 2 + rng.Intn(300)})
		}
	}
	// a file that has grown by many MiB since it was signed
	for i, cons := range []string{"failfast", "woundsfile", "printer"} {
		cases = append(cases, &C16Case{Seed: rng.Next(), Files: 4, Wounded: 0, Consumer: cons, CancelAt: -2, GrownMiB: []int{16, 20, 9}[i]})
	}
	// the worker itself fails: its error has to reach the caller
	for i := 0; i < 6; i++ {
		cases = append(cases, &C16Case{Seed: rng.Next(), Files: rng.Pick(0, 3, 40), Wounded: rng.Pick(1, 3), Consumer: "failfast", CancelAt: -2,
			WorkerFails: "short-signature", DropHashes: 1 + i%3})
	}
	cases = append(cases, &C16Case{Seed: rng.Next(), Consumer: "failfast", CancelAt: -2, WorkerFails: "unreadable"})
	par := env.Workers
	if par > 6 {
		par = 6
	}
	wvlib.ParallelDo(len(cases), par, func(i int) {
		c16One(env, cases[i])
		if i < 3 {
			R.Sample(cases[i])
		}
	})
	R.ModelLines = 0
}
