package main

import (
	"fmt"
	"os"
	"strings"

	"github.com/itchio/lake"
	"github.com/itchio/lake/pools/fspool"
	"github.com/itchio/lake/tlc"
	"github.com/itchio/savior"
	"github.com/itchio/savior/seeksource"
	"github.com/itchio/wharf/pwr"
	"github.com/itchio/wharf/pwr/bowl"
	"github.com/itchio/wharf/pwr/patcher"
	"github.com/pkg/errors"

	"wv/internal/wvlib"
)

func init() { runners["C09"] = runC09 }

type C09Case struct {
	PairCase
	Optimized bool     `json:"optimized"`
	Pristine  bool     `json:"pristine"`
	Special   string   `json:"special,omitempty"` // whole-copy-block-multiple | extend-last-block | truncate-at-boundary
	Damage    []string `json:"damage,omitempty"`
}

// oldSigBytes writes the signature of the old build as a stream (what the safekeeper opens).
func oldSigBytes(oldDir string, comp Comp) ([]byte, *tlc.Container, error) {
	// diff old against itself: the signature stream written next to the patch describes `old`
	res, err := diffDirs(oldDir, oldDir, comp, nil)
	if err != nil {
		return nil, nil, err
	}
	return res.Sig, res.Old, nil
}

func c09One(env *Env, m *wvlib.Model, c *C09Case) {
	var old, nw *wvlib.Build
	r := wvlib.NewRng(c.Seed ^ 0xc09)
	switch c.Special {
	case "whole-copy-block-multiple":
		// a pristine file of exactly k blocks, reused by a whole-file copy (rename)
		d := r.Bytes(wvlib.BS * (1 + r.Intn(3)))
		old = &wvlib.Build{Entries: []wvlib.BEntry{{Path: "a.bin", Kind: 'f', Data: d}, {Path: "b.bin", Kind: 'f', Data: r.Bytes(100)}}}
		nw = &wvlib.Build{Entries: []wvlib.BEntry{{Path: "renamed.bin", Kind: 'f', Data: d}, {Path: "b.bin", Kind: 'f', Data: r.Bytes(100)}}}
	case "bsdiff-jumps":
		// the new file is made of slices of one old file taken at scattered offsets with fresh data in between:
		// the optimized patch reads the old file through a bsdiff series that seeks back and forth
		d := r.Bytes(wvlib.BS*(4+r.Intn(3)) + r.Intn(wvlib.BS))
		var nd []byte
		for k := 0; k < 2+r.Intn(4); k++ {
			a := r.Intn(len(d) - 30000)
			nd = append(nd, d[a:a+10000+r.Intn(20000)]...)
			nd = append(nd, r.Bytes(2000+r.Intn(30000))...)
		}
		old = &wvlib.Build{Entries: []wvlib.BEntry{{Path: "data.bin", Kind: 'f', Data: d}}}
		nw = &wvlib.Build{Entries: []wvlib.BEntry{{Path: "data.bin", Kind: 'f', Data: nd}}}
	case "extend-last-block", "truncate-at-boundary":
		sz := wvlib.BS*(1+r.Intn(2)) + 1000
		if c.Special == "truncate-at-boundary" {
			sz = wvlib.BS*(2+r.Intn(2)) + r.Pick(0, 500)
		}
		d := r.Bytes(sz)
		ed, _ := wvlib.Edit(r, d, 1)
		old = &wvlib.Build{Entries: []wvlib.BEntry{{Path: "a.bin", Kind: 'f', Data: d}, {Path: "c.bin", Kind: 'f', Data: d[:len(d)/2]}}}
		nw = &wvlib.Build{Entries: []wvlib.BEntry{{Path: "copy.bin", Kind: 'f', Data: d}, {Path: "a.bin", Kind: 'f', Data: ed}, {Path: "c.bin", Kind: 'f', Data: d[:len(d)/2]}}}
	case "fresh-first":
		// the first file of the new build is brand-new data (no read of the old build happens before the first
		// checkpoints); see c09StopResume
		old, nw = c.gen()
		nw.Entries = append(nw.Entries, wvlib.BEntry{Path: "0-fresh.bin", Kind: 'f', Data: r.Bytes(200 + r.Intn(2000))})
	default:
		old, nw = c.gen()
	}
	old.Normalize()
	nw.Normalize()
	base, od, nd, clean := writePair(env.Scratch, old, nw)
	defer clean()
	res, err := diffDirs(od, nd, Comp{"none", 0}, nil)
	if err != nil {
		env.R.Violate("diff-error", err.Error(), c)
		return
	}
	patch := res.Patch
	if c.Optimized || c.Special == "bsdiff-jumps" {
		o := optimizeReal(patch, od, nd, &C07Case{Force: r.Bool() || c.Special == "bsdiff-jumps", OutComp: Comp{"none", 0}, Partitions: r.Pick(0, 2)}, res)
		if o.err != "" {
			env.R.Note("optimizer: %s", o.err)
			return
		}
		patch = o.patch
	}
	sig, _, err := oldSigBytes(od, Comp{"none", 0})
	if err != nil {
		env.R.Violate("sign-error", err.Error(), c)
		return
	}
	// damage a copy of the old build
	dmgDir := base + "/damaged"
	var dmg *wvlib.Build
	switch {
	case c.Pristine || c.Special == "whole-copy-block-multiple":
		dmg = old.Clone()
	case c.Special == "extend-last-block":
		dmg = old.Clone()
		f := dmg.Find("a.bin")
		f.Data = append(f.Data, r.Bytes(1+r.Intn(wvlib.BS-1001))...)
		c.Damage = []string{"extend a.bin inside its last block"}
	case c.Special == "bsdiff-jumps":
		dmg = old.Clone()
		f := dmg.Find("data.bin")
		pos := r.Intn(len(f.Data))
		if r.Bool() {
			pos = (pos/32768)*32768 + r.Intn(64) // near the start of a 32 KiB read chunk
		}
		f.Data[pos] ^= byte(1 << uint(r.Intn(8)))
		c.Damage = []string{fmt.Sprintf("flip data.bin@%d", pos)}
	case c.Special == "truncate-at-boundary":
		dmg = old.Clone()
		f := dmg.Find("a.bin")
		f.Data = f.Data[:wvlib.BS*(1+r.Intn(len(f.Data)/wvlib.BS))]
		c.Damage = []string{fmt.Sprintf("truncate a.bin to %d (block boundary)", len(f.Data))}
	default:
		var desc []string
		dmg, desc = wvlib.Damage(r, old, wvlib.DamageOpts{MaxOps: 2})
		c.Damage = desc
	}
	if err := dmg.Write(dmgDir); err != nil {
		env.R.Note("materialise: %v", err)
		return
	}
	damaged := wvlib.DiffTrees(dmg, old) != ""
	out := base + "/out"
	_, aerr := applyFresh(patch, dmgDir, out, func(inner lake.Pool, _ *tlc.Container) (lake.Pool, error) {
		return pwr.NewSafeKeeper(pwr.SafeKeeperParams{Inner: inner, Open: func() (savior.SeekSource, error) { return bytesSource(sig), nil }})
	}, nil)
	impl := "err"
	var got *wvlib.Build
	if env.Replay != "" && aerr != nil {
		fmt.Printf("apply error: %v\n", aerr)
	}
	if aerr == nil {
		got, _ = wvlib.ReadTree(out)
		if d := wvlib.DiffTrees(got, nw); d != "" {
			cls := "silent-wrong-result"
			for _, s := range c.Damage {
				if strings.HasPrefix(s, "extend") {
					cls = "silent-wrong-result:extension"
				}
				if strings.HasPrefix(s, "truncate") {
					cls = "silent-wrong-result:truncation"
				}
			}
			env.R.Violate(cls, fmt.Sprintf("damage %v: application returned nil but %s", c.Damage, d), c)
		}
		var outs []string
		for i, f := range res.New.Files {
			if e := got.Find(f.Path); e != nil {
				outs = append(outs, fmt.Sprintf("%d:%d:%d", i, len(e.Data), wvlib.Fnv(e.Data)))
			}
		}
		impl = "ok out=" + strings.Join(outs, ",")
	} else if env.Replay != "" && false {
	} else if strings.HasPrefix(aerr.Error(), "PANIC") {
		impl = "panic"
		env.R.Violate("safekeeper-panic", aerr.Error(), c)
	} else if !damaged {
		cls := "pristine-rejected"
		if c.Special == "whole-copy-block-multiple" {
			cls = "pristine-rejected:whole-copy-of-block-multiple"
		}
		env.R.Violate(cls, aerr.Error(), c)
	}
	os.RemoveAll(out)
	// ---- the same application stopped at EVERY checkpoint and resumed, all sessions reading the old build through
	// ONE safekeeper (patcher.Resume closes the pool each time it returns; a pool is reusable after Close)
	if c.Special == "fresh-first" || c.Seed%4 == 0 {
		stops, serr := c09StopResume(patch, dmgDir, base+"/out-sr", sig)
		env.R.Count("stop-resume-one-safekeeper", 1)
		env.R.Count("stop-resume-one-safekeeper:stops", int64(stops))
		if serr == nil {
			got2, _ := wvlib.ReadTree(base + "/out-sr")
			if d := wvlib.DiffTrees(got2, nw); d != "" {
				env.R.Violate("silent-wrong-result:stop-resume", fmt.Sprintf("damage %v: stopped %d times, returned nil but %s", c.Damage, stops, d), c)
			}
		} else if strings.HasPrefix(serr.Error(), "PANIC") {
			env.R.Violate("safekeeper-panic:stop-resume", serr.Error(), c)
		} else if !damaged {
			env.R.Violate("pristine-rejected:stop-resume", fmt.Sprintf("after %d stops: %v", stops, serr), c)
		}
		os.RemoveAll(base + "/out-sr")
	}
	// ---- model
	_, _, msgs, derr := decodePatch(patch)
	if derr == nil {
		mf, cl := writeMsgFile(env.Scratch, msgs)
		var sb strings.Builder
		var cleans []func()
		fmt.Fprintf(&sb, "%d", len(res.Old.Files))
		for _, f := range res.Old.Files {
			sd := old.Find(f.Path).Data
			st, c1 := env.Scratch.Tok(sd)
			cleans = append(cleans, c1)
			dt := "MISSING"
			if e := dmg.Find(f.Path); e != nil && e.Kind == 'f' {
				var c2 func()
				dt, c2 = env.Scratch.Tok(e.Data)
				cleans = append(cleans, c2)
			}
			fmt.Fprintf(&sb, " %s %s %s", f.Path, st, dt)
		}
		ans, merr := m.Ask(fmt.Sprintf("patchsk %d %s %s %s", wvlib.BS, mf, sizesCSV(res.New), sb.String()))
		cl()
		for _, f := range cleans {
			f()
		}
		mcmp := ans
		if strings.HasPrefix(ans, "ok") {
			if i := strings.Index(ans, " out="); i >= 0 {
				j := strings.Index(ans[i+1:], " ")
				mcmp = "ok " + ans[i+1:i+1+j]
			}
		}
		if merr != nil {
			env.R.Disagree(c, impl, "MODEL-DIED", "n/a")
		} else if mcmp != impl {
			env.R.Disagree(c, trunc(impl, 300), trunc(mcmp, 300), fmt.Sprintf("damage %v", c.Damage))
		}
	}
	env.R.Eval(c.Seed^uint64(len(c.Special))<<20, damaged)
	if aerr == nil {
		env.R.Count("applied-ok", 1)
	} else {
		env.R.Count("applied-err", 1)
	}
	if c.Special != "" {
		env.R.Count("special:"+c.Special, 1)
	}
	for _, d := range c.Damage {
		env.R.Count("damage:"+strings.Fields(d)[0], 1)
	}
}

// c09StopResume applies the patch (every DATA op of two bytes or more split in two, which leaves it a valid patch of
// the same pair with more message boundaries) in sessions that stop at every checkpoint offered; every session is a
// new patcher and a new fresh bowl but the SAME safekeeper pool.
func c09StopResume(patch []byte, oldDir, outDir string, sig []byte) (stops int, err error) {
	defer func() {
		if r := recover(); r != nil {
			err = fmt.Errorf("PANIC %v", r)
		}
	}()
	if oldC, newC, msgs, derr := decodePatch(patch); derr == nil {
		var split []PMsg
		for _, m := range msgs {
			if m.Kind == "O" && pwr.SyncOp_Type(m.A) == pwr.SyncOp_DATA && len(m.Data) >= 2 {
				h := len(m.Data) / 2
				m1, m2 := m, m
				m1.Data, m2.Data = m.Data[:h], m.Data[h:]
				split = append(split, m1, m2)
				continue
			}
			split = append(split, m)
		}
		if p2, eerr := encodePatch(oldC, newC, split, Comp{"none", 0}); eerr == nil {
			patch = p2
		}
	}
	var pool lake.Pool
	var ck *patcher.Checkpoint
	for {
		p, err := patcher.New(seeksource.FromBytes(patch), quietConsumer)
		if err != nil {
			return stops, err
		}
		if pool == nil {
			pool, err = pwr.NewSafeKeeper(pwr.SafeKeeperParams{Inner: fspool.New(p.GetTargetContainer(), oldDir), Open: func() (savior.SeekSource, error) { return bytesSource(sig), nil }})
			if err != nil {
				return stops, err
			}
		}
		sv := &recSaver{stopAt: 0, every: 1}
		p.SetSaveConsumer(sv)
		b, err := bowl.NewFreshBowl(bowl.FreshBowlParams{SourceContainer: p.GetSourceContainer(), TargetContainer: p.GetTargetContainer(), TargetPool: pool, OutputFolder: outDir})
		if err != nil {
			return stops, err
		}
		err = p.Resume(ck, pool, b)
		if err == nil {
			if err = b.Commit(); err != nil {
				return stops, err
			}
			return stops, b.Close()
		}
		b.Close()
		if errors.Cause(err) != patcher.ErrStop || len(sv.saved) == 0 {
			return stops, err
		}
		stops++
		if stops > 100000 {
			return stops, fmt.Errorf("no progress after %d stops", stops)
		}
		if ck, err = decodeCheckpoint(sv.saved[len(sv.saved)-1]); err != nil {
			return stops, err
		}
	}
}

func runC09(env *Env) {
	R := env.R
	R.Rule = "(patch, damage) pairs: plain and optimized patches of random build pairs, old build damaged by flips (reused and unreused blocks), truncation (incl. exactly at block boundaries), extension (inside the last block, past it), deleted/emptied files; pristine controls; the three special shapes (whole-file copy of a k*64KiB file, bytes appended inside the last partial block of a copied file, truncation at a block boundary); distinct by seed; non-trivial = the old build really is damaged"
	if env.Replay != "" {
		var c C09Case
		replayCase(env, &c)
		m, _ := wvlib.StartModel()
		defer m.Close()
		c09One(env, m, &c)
		printOutcome(env)
		return
	}
	n := 300
	if env.Thorough() {
		n = 5000
	}
	rng := wvlib.NewRng(env.Seed)
	cases := make([]*C09Case, n)
	for i := range cases {
		c := &C09Case{PairCase: PairCase{Seed: rng.Next(), Opts: wvlib.PairOpts{MaxFiles: 4, SmallOnly: i%3 != 0}}, Optimized: i%2 == 1, Pristine: i%5 == 0}
		switch i % 12 {
		case 1, 5, 9, 10:
			c.Special = "bsdiff-jumps"
		case 3:
			c.Special = "whole-copy-block-multiple"
		case 7:
			c.Special = "extend-last-block"
		case 11:
			c.Special = "truncate-at-boundary"
		case 2, 8:
			c.Special = "fresh-first"
			c.Opts.SmallOnly = true
		}
		cases[i] = c
	}
	models := startModels(env)
	wvlib.ParallelDo(n, env.Workers, func(i int) {
		m := <-models
		defer func() { models <- m }()
		c09One(env, m, cases[i])
		if i < 3 {
			R.Sample(cases[i])
		}
	})
	stopModels(env, models)
}
