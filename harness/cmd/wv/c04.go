package main

import (
	"context"
	"fmt"
	"os"
	"strings"

	"github.com/itchio/wharf/pwr"

	"wv/internal/wvlib"
)

func init() { runners["C04"] = runC04 }

func c04One(env *Env, m *wvlib.Model, c *PairCase) {
	old, nw := c.gen()
	base, od, nd, clean := writePair(env.Scratch, old, nw)
	defer clean()
	var slice *wvlib.Rng
	if c.Slice {
		slice = wvlib.NewRng(c.Seed ^ 0x51ce)
	}
	ev, err := evalPair(env, m, od, nd, c.Comp, slice, true)
	if err != nil {
		env.R.Violate("diff-error", err.Error(), c)
		return
	}
	for _, p := range ev.SigProblems {
		cls := "signature-wrong"
		if strings.Contains(p, "producers") || strings.Contains(p, "stand-alone") {
			cls = "producers-disagree"
		}
		env.R.Violate(cls, p, c)
		break
	}
	if ev.ModelErr != nil {
		env.R.Disagree(c, trunc(ev.ImplSigs, 300), "MODEL: "+ev.ModelErr.Error(), "n/a")
	} else if ev.ModelSigs != ev.ImplSigs {
		env.R.Disagree(c, "sig: "+firstDiffContext(ev.ImplSigs, ev.ModelSigs), "sig: "+firstDiffContext(ev.ModelSigs, ev.ImplSigs), "see violations")
	}
	// the pristine build validates against the signature that was written next to the patch
	sigInfo, err := pwr.ReadSignature(context.Background(), bytesSource(ev.Res.Sig))
	if err != nil {
		env.R.Violate("signature-unreadable", err.Error(), c)
		return
	}
	if err := pwr.AssertValid(nd, sigInfo); err != nil {
		env.R.Violate("pristine-build-rejected", "fail-fast validation: "+err.Error(), c)
	}
	wp := base + "/wounds.pww"
	vctx := &pwr.ValidatorContext{WoundsPath: wp, Consumer: quietConsumer}
	if c.Seed%3 == 0 {
		vctx.Consumer = nil // a caller that does not care about progress: Validate supplies its own
	}
	if err := safeValidate(vctx, nd, sigInfo); err != nil {
		env.R.Violate("validate-error", err.Error(), c)
	} else if _, err := os.Stat(wp); err == nil {
		env.R.Violate("pristine-build-wounded", "validation of the undamaged build wrote a wounds file", c)
	}
	nblocks := strings.Count(ev.ImplSigs, ":")
	env.R.Eval(c.Seed, nblocks > len(ev.NewFiles))
	env.R.Count("comp:"+c.Comp.String(), 1)
	if c.Slice {
		env.R.Count("short-read-source", 1)
	}
	for _, f := range ev.NewFiles {
		env.R.Count("size-class:"+sizeClass(len(f)), 1)
	}
	_ = fmt.Sprint
}

func safeValidate(vctx *pwr.ValidatorContext, dir string, sig *pwr.SignatureInfo) (err error) {
	defer func() {
		if r := recover(); r != nil {
			err = fmt.Errorf("PANIC %v", r)
		}
	}()
	return vctx.Validate(context.Background(), dir, sig)
}

func runC04(env *Env) {
	R := env.R
	R.Rule = "random builds (sizes on/around block multiples, empty files, many small files, symlinks, empty dirs) x compression of the signature stream x {full reads, adversarially short reads from the source pool}; both producers compared hash by hash; strong hashes recomputed with crypto/md5 over the block boundaries; distinct by seed; non-trivial = some file has more than one block"
	if env.Replay != "" {
		var c PairCase
		replayCase(env, &c)
		m, _ := wvlib.StartModel()
		defer m.Close()
		c04One(env, m, &c)
		printOutcome(env)
		return
	}
	n := 120
	if env.Thorough() {
		n = 2000
	}
	rng := wvlib.NewRng(env.Seed)
	comps := []Comp{{"none", 0}, {"gzip", 1}, {"brotli", 1}, {"gzip", 9}, {"brotli", 5}, {"gzip", -2}, {"gzip", 0}, {"brotli", 0}, {"gzip", -1}, {"brotli", 9}, {"brotli", 2}}
	cases := make([]*PairCase, n)
	for i := range cases {
		o := wvlib.PairOpts{MaxFiles: 6, Symlinks: true, AllowLarge: i%12 == 5}
		if i%4 == 1 {
			o.SmallOnly = true
			o.MaxFiles = 25
		}
		cases[i] = &PairCase{Seed: rng.Next(), Opts: o, Comp: comps[i%len(comps)], Slice: i%2 == 0}
	}
	models := startModels(env)
	wvlib.ParallelDo(n, env.Workers, func(i int) {
		m := <-models
		defer func() { models <- m }()
		c04One(env, m, cases[i])
		if i < 3 {
			R.Sample(cases[i])
		}
	})
	stopModels(env, models)
}
