package main

import (
	"bytes"
	"encoding/hex"
	"encoding/json"
	"fmt"
	"io"
	"os"
	"strings"
	"time"

	"github.com/golang/protobuf/proto"
	"github.com/itchio/headway/state"
	"github.com/itchio/wharf/bsdiff"
	"github.com/itchio/wharf/bsdiff/lrufile"

	"wv/internal/wvlib"
)

func init() {
	runners["C12"] = runC12
	childHandlers["C12"] = c12Child
}

type bctrl struct {
	add, cp []byte
	seek    int64
	eof     bool
}

// bsdiffDo runs the real differ, recovering panics of the calling goroutine.
func bsdiffDo(partitions, conc int, old, nw []byte) (ctrls []bctrl, perr string) {
	defer func() {
		if r := recover(); r != nil {
			perr = fmt.Sprintf("PANIC %v", r)
		}
	}()
	dc := &bsdiff.DiffContext{Partitions: partitions, SuffixSortConcurrency: conc}
	err := dc.Do(bytes.NewReader(old), bytes.NewReader(nw), func(msg proto.Message) error {
		c := msg.(*bsdiff.Control)
		ctrls = append(ctrls, bctrl{add: append([]byte(nil), c.Add...), cp: append([]byte(nil), c.Copy...), seek: c.Seek, eof: c.Eof})
		return nil
	}, &state.Consumer{})
	if err != nil {
		return nil, "ERR " + err.Error()
	}
	return ctrls, ""
}

func canonCtrls(cs []bctrl) string {
	var sb strings.Builder
	for i, c := range cs {
		if i > 0 {
			sb.WriteString(" / ")
		}
		if c.eof {
			sb.WriteString("EOF")
		} else {
			fmt.Fprintf(&sb, "A %d %d C %d %d S %d", len(c.add), wvlib.Fnv(c.add), len(c.cp), wvlib.Fnv(c.cp), c.seek)
		}
	}
	return sb.String()
}

// bsdiffApply applies controls with the real patcher (lrufile inside), optionally resuming in the middle.
func bsdiffApply(old []byte, cs []bctrl, newSize int64, splitAt int) (out []byte, perr string) {
	defer func() {
		if r := recover(); r != nil {
			perr = fmt.Sprintf("PANIC %v", r)
		}
	}()
	pc := bsdiff.NewPatchContext()
	var buf bytes.Buffer
	if splitAt < 0 {
		i := 0
		err := pc.Patch(c12OldReader(old), &buf, newSize, func(msg proto.Message) error {
			if i >= len(cs) {
				return io.ErrUnexpectedEOF
			}
			c := msg.(*bsdiff.Control)
			c.Reset()
			c.Add, c.Copy, c.Seek, c.Eof = cs[i].add, cs[i].cp, cs[i].seek, cs[i].eof
			i++
			return nil
		})
		if err != nil {
			return nil, "ERR " + err.Error()
		}
		return buf.Bytes(), ""
	}
	// two sessions: apply cs[:splitAt], save OldOffset, new context, apply the rest
	ipc, err := pc.NewIndividualPatchContext(bytes.NewReader(old), 0, &buf)
	if err != nil {
		return nil, "ERR " + err.Error()
	}
	for i := 0; i < splitAt; i++ {
		if cs[i].eof {
			break
		}
		if err := ipc.Apply(&bsdiff.Control{Add: cs[i].add, Copy: cs[i].cp, Seek: cs[i].seek}); err != nil {
			return nil, "ERR " + err.Error()
		}
	}
	saved := ipc.OldOffset
	pc2 := bsdiff.NewPatchContext()
	ipc2, err := pc2.NewIndividualPatchContext(bytes.NewReader(old), saved, &buf)
	if err != nil {
		return nil, "ERR " + err.Error()
	}
	for i := splitAt; i < len(cs); i++ {
		if cs[i].eof {
			break
		}
		if err := ipc2.Apply(&bsdiff.Control{Add: cs[i].add, Copy: cs[i].cp, Seek: cs[i].seek}); err != nil {
			return nil, "ERR " + err.Error()
		}
	}
	return buf.Bytes(), ""
}

func tokBytes(t string) []byte {
	if strings.HasPrefix(t, "x:") {
		b, _ := hex.DecodeString(t[2:])
		return b
	}
	if strings.HasPrefix(t, "f:") {
		b, _ := os.ReadFile(t[2:])
		return b
	}
	return nil
}

// c12Child: `diff <partitions> <conc> <split> <old> <new>` -> "<ctrls> || <applied len> <fnv> <status>"
func c12Child(line string) string {
	f := strings.Fields(line)
	if len(f) != 6 || f[0] != "diff" {
		return "bad-request"
	}
	var p, conc, split int
	fmt.Sscan(f[1], &p)
	fmt.Sscan(f[2], &conc)
	fmt.Sscan(f[3], &split)
	old, nw := tokBytes(f[4]), tokBytes(f[5])
	cs, perr := bsdiffDo(p, conc, old, nw)
	if perr != "" {
		return perr
	}
	res := canonCtrls(cs)
	if len(cs) == 0 || !cs[len(cs)-1].eof {
		return res + " || NO-EOF"
	}
	sp := -1
	if split >= 0 && len(cs) > 1 {
		sp = split % len(cs)
	}
	out, aerr := bsdiffApply(old, cs, int64(len(nw)), sp)
	if aerr != "" {
		return res + " || APPLY-" + aerr
	}
	st := "same"
	if !bytes.Equal(out, nw) {
		st = "DIFFERENT"
	}
	// once more through the ONE patch context this process keeps for all its applications, the old file handed
	// over in the one reader it recycles (a pool that refills a single reader): what came before must not matter
	if st == "same" && sp < 0 {
		if out2, e2 := bsdiffApplyShared(old, cs, int64(len(nw))); e2 != "" {
			return res + " || APPLY-reused-context-" + e2
		} else if !bytes.Equal(out2, nw) {
			return fmt.Sprintf("%s || %d %d REUSED-CONTEXT-DIFFERENT", res, len(out2), wvlib.Fnv(out2))
		}
	}
	return fmt.Sprintf("%s || %d %d %s", res, len(out), wvlib.Fnv(out), st)
}

var c12SharedPC = bsdiff.NewPatchContext()
var c12SharedReader = bytes.NewReader(nil)

func bsdiffApplyShared(old []byte, cs []bctrl, newSize int64) (out []byte, perr string) {
	defer func() {
		if r := recover(); r != nil {
			perr = fmt.Sprintf("PANIC %v", r)
			c12SharedPC = bsdiff.NewPatchContext()
		}
	}()
	// first another old file of the same length (every byte different) read from end to end through the same
	// context and reader, so that a replay of this case alone has the same history
	if len(old) > 0 {
		prime := make([]byte, len(old))
		for k := range prime {
			prime[k] = old[k] ^ 0x5a
		}
		c12SharedReader.Reset(prime)
		var sink bytes.Buffer
		k := 0
		c12SharedPC.Patch(c12SharedReader, &sink, int64(len(prime)), func(msg proto.Message) error {
			c := msg.(*bsdiff.Control)
			c.Reset()
			if k == 0 {
				c.Add = make([]byte, len(prime))
			} else {
				c.Eof = true
			}
			k++
			return nil
		})
	}
	c12SharedReader.Reset(old)
	var buf bytes.Buffer
	i := 0
	err := c12SharedPC.Patch(c12SharedReader, &buf, newSize, func(msg proto.Message) error {
		if i >= len(cs) {
			return io.ErrUnexpectedEOF
		}
		c := msg.(*bsdiff.Control)
		c.Reset()
		c.Add, c.Copy, c.Seek, c.Eof = cs[i].add, cs[i].cp, cs[i].seek, cs[i].eof
		i++
		return nil
	})
	if err != nil {
		return nil, "ERR " + err.Error()
	}
	return buf.Bytes(), ""
}

type C12Case struct {
	Kind       string `json:"kind"` // "small" | "gen" | "lru"
	Partitions int    `json:"partitions"`
	Conc       int    `json:"conc"`
	Split      int    `json:"split"`
	Old        string `json:"old,omitempty"`
	New        string `json:"new,omitempty"`
	Seed       uint64 `json:"seed,omitempty"`
	Shape      string `json:"shape,omitempty"`
	// lru
	Chunk int    `json:"chunk,omitempty"`
	Cap   int    `json:"cap,omitempty"`
	File  string `json:"file,omitempty"`
	Ops   string `json:"ops,omitempty"`
}

func c12Expand(c *C12Case) (old, nw []byte) {
	if c.Kind == "small" {
		old, _ = hex.DecodeString(c.Old)
		nw, _ = hex.DecodeString(c.New)
		return
	}
	r := wvlib.NewRng(c.Seed)
	sz := func() int {
		switch r.Intn(6) {
		case 0:
			return r.Intn(20)
		case 1:
			return r.Intn(300)
		case 2:
			return 131072*r.Intn(3) + r.Pick(-1, 0, 1, 17)*r.Intn(2) + 1
		default:
			return r.Intn(1200)
		}
	}
	if c.Shape == "aligned32k" {
		// old size an exact multiple of the patcher's 32 KiB read-cache chunk; edits close to the end so that an
		// add region ends on the last byte of the old file
		k := r.Pick(1, 2, 3, 5, 8, 32)
		old = r.Bytes(k * 32768)
		nw = append([]byte(nil), old...)
		for e := 0; e < 1+r.Intn(3); e++ {
			pos := len(nw) - 1 - r.Intn(40)
			if e > 0 {
				pos = r.Intn(len(nw))
			}
			nw[pos] ^= byte(1 + r.Intn(255))
		}
		switch r.Intn(4) {
		case 0:
			nw = append(nw, r.Bytes(1+r.Intn(100))...)
		case 1:
			nw = append(r.Bytes(1+r.Intn(50)), nw...)
		}
		return
	}
	big := c.Shape == "big" || c.Shape == "bigperiodic"
	n := sz()
	if big {
		n = 100000 + r.Intn(1<<21)
	}
	if n < 1 {
		n = 1
	}
	switch c.Shape {
	case "periodic", "bigperiodic":
		per := r.SmallAlpha(1+r.Intn(40), 3)
		for len(old) < n {
			old = append(old, per...)
		}
	case "lowentropy":
		old = r.SmallAlpha(n, 2)
	default:
		old = r.Bytes(n)
	}
	// new: edits of old
	nw = append([]byte(nil), old...)
	for k := r.Intn(5); k > 0 && len(nw) > 0; k-- {
		pos := r.Intn(len(nw))
		switch r.Intn(3) {
		case 0:
			nw[pos] ^= byte(1 + r.Intn(255))
		case 1:
			ins := r.Bytes(1 + r.Intn(30))
			nw = append(nw[:pos], append(ins, nw[pos:]...)...)
		default:
			end := pos + r.Intn(40)
			if end > len(nw) {
				end = len(nw)
			}
			nw = append(nw[:pos], nw[end:]...)
		}
	}
	switch r.Intn(8) {
	case 0:
		nw = nil
	case 1:
		nw = r.Bytes(r.Intn(20))
	case 2:
		nw = nw[:r.Intn(len(nw)+1)]
	case 3:
		nw = append(nw, old...)
	}
	return
}

func c12One(env *Env, ch *wvlib.Child, m *wvlib.Model, c *C12Case) {
	old, nw := c12Expand(c)
	ot, c1 := env.Scratch.Tok(old)
	nt, c2 := env.Scratch.Tok(nw)
	defer c1()
	defer c2()
	ans, crashed, diag := ch.Ask(fmt.Sprintf("diff %d %d %d %s %s", c.Partitions, c.Conc, c.Split, ot, nt), wvlib.Watchdog(60*time.Second))
	impl := ans
	if crashed {
		first := diag
		if i := strings.Index(diag, "\n"); i > 0 {
			first = diag[:i]
		}
		impl = "KILLED " + first
		cls := "process-killed"
		what := "the differ took the whole process down (panic in a goroutine, not recoverable): "
		if strings.Contains(diag, "hang") {
			wvlib.NoteHang()
			cls = "differ-does-not-terminate"
			what = "the differ did not produce its series: "
		}
		if len(old) == 0 {
			cls += ":empty-old"
		}
		env.R.Violate(cls, what+trunc(diag, 600), c)
	} else if strings.HasPrefix(ans, "PANIC") {
		cls := "differ-panic"
		if strings.Contains(ans, "divide by zero") {
			cls = "differ-panic:divide-by-zero"
		}
		env.R.Violate(cls, ans, c)
	} else if strings.HasPrefix(ans, "ERR") {
		env.R.Violate("differ-error", ans, c)
	} else if strings.HasSuffix(ans, "NO-EOF") {
		env.R.Violate("no-eof-message", trunc(ans, 300), c)
	} else if strings.Contains(ans, "|| APPLY-") {
		env.R.Violate("apply-fails", trunc(ans[strings.Index(ans, "||"):], 300), c)
	} else if strings.HasSuffix(ans, "REUSED-CONTEXT-DIFFERENT") {
		env.R.Violate("roundtrip:reused-patch-context", trunc(ans[strings.Index(ans, "||"):], 300), c)
	} else if strings.HasSuffix(ans, "DIFFERENT") {
		env.R.Violate("roundtrip", trunc(ans[strings.Index(ans, "||"):], 300), c)
	}
	env.R.Count(fmt.Sprintf("partitions=%d", c.Partitions), 1)
	if len(old) <= 1500 && len(nw) <= 1500 {
		mans, merr := m.Ask(fmt.Sprintf("c12 %d %s %s", c.Partitions, ot, nt))
		if merr != nil {
			env.R.Disagree(c, impl, "MODEL-DIED", "n/a")
			return
		}
		// model answers "<ctrls> || <len> <fnv>" or "PANIC <site>"
		implCmp := impl
		if i := strings.LastIndex(implCmp, " "); i > 0 && (strings.HasSuffix(implCmp, " same") || strings.HasSuffix(implCmp, " DIFFERENT")) {
			implCmp = implCmp[:i]
		}
		if strings.HasPrefix(mans, "PANIC") {
			if !(strings.HasPrefix(impl, "PANIC") || strings.HasPrefix(impl, "KILLED")) {
				env.R.Disagree(c, impl, mans, "n/a")
			}
		} else if mans != implCmp {
			env.R.Disagree(c, trunc(implCmp, 1500), trunc(mans, 1500), "see violations")
		}
		env.R.Count("model-compared", 1)
	}
}

func runC12(env *Env) {
	R := env.R
	R.Rule = "bsdiff: exhaustive (old,new) over {a,b} up to the stated lengths x partitions, exact control messages compared with the model; random small/medium/large pairs (edits of old, periodic, low entropy, new empty/shorter/longer) x partitions 0..16 x split points; non-trivial = new non-empty and different from old. lrufile: random seek/read sequences for chunk sizes 1..9, capacities 1..4, compared read by read with the model and a bytes.Reader"
	if env.Replay != "" {
		var wrap struct {
			Case C12Case `json:"case"`
		}
		b, _ := os.ReadFile(env.Replay)
		json.Unmarshal(b, &wrap)
		m, _ := wvlib.StartModel()
		defer m.Close()
		if wrap.Case.Kind == "lru" {
			c12Lru(env, m, &wrap.Case)
		} else if wrap.Case.Kind == "lru-sessions" {
			// the sessions are regenerated from the seed (the case shows the session that failed)
			c12LruSessions(env, m, &C12Case{Kind: "lru", Seed: wrap.Case.Seed})
		} else {
			ch, _ := wvlib.StartChild("C12")
			defer ch.Close()
			c12One(env, ch, m, &wrap.Case)
		}
		for _, v := range R.Violations {
			fmt.Printf("oracle: %s: %s\n", v.Class, v.Detail)
		}
		for _, d := range R.Disagreements {
			fmt.Printf("impl : %s\nmodel: %s\n", trunc(d.Impl, 800), trunc(d.Model, 800))
		}
		return
	}
	var cases []*C12Case
	maxO, maxN, maxP := 5, 6, 3
	if env.Thorough() {
		maxO, maxN, maxP = 7, 8, 8
	}
	for lo := 0; lo <= maxO; lo++ {
		enumStrings(lo, 2, func(o []byte) {
			oh := hex.EncodeToString(o)
			for ln := 0; ln <= maxN; ln++ {
				enumStrings(ln, 2, func(n []byte) {
					nh := hex.EncodeToString(n)
					for p := 0; p <= maxP; p++ {
						cases = append(cases, &C12Case{Kind: "small", Partitions: p, Split: -1, Old: oh, New: nh})
					}
				})
			}
		})
	}
	nSmall := len(cases)
	nRand := 300
	nBig := 12
	if env.Thorough() {
		nRand, nBig = 6000, 200
	}
	rng := wvlib.NewRng(env.Seed)
	shapes := []string{"random", "periodic", "lowentropy", "random", "aligned32k"}
	for i := 0; i < nRand; i++ {
		cases = append(cases, &C12Case{Kind: "gen", Seed: rng.Next(), Shape: shapes[i%len(shapes)], Partitions: rng.Intn(17), Conc: rng.Pick(0, 0, 1, 2, -1), Split: rng.Pick(-1, -1, rng.Intn(50))})
	}
	for i := 0; i < nBig; i++ {
		sh := "big"
		if i%3 == 2 {
			sh = "bigperiodic"
		}
		cases = append(cases, &C12Case{Kind: "gen", Seed: rng.Next(), Shape: sh, Partitions: rng.Intn(17), Conc: rng.Pick(0, 2), Split: rng.Pick(-1, rng.Intn(50))})
	}
	type rig struct {
		ch *wvlib.Child
		m  *wvlib.Model
	}
	rigs := make(chan *rig, env.Workers)
	for i := 0; i < env.Workers; i++ {
		ch, err := wvlib.StartChild("C12")
		if err != nil {
			fmt.Fprintln(os.Stderr, err)
			os.Exit(2)
		}
		m, err := wvlib.StartModel()
		if err != nil {
			fmt.Fprintln(os.Stderr, err)
			os.Exit(2)
		}
		rigs <- &rig{ch, m}
	}
	wvlib.ParallelDo(len(cases), env.Workers, func(i int) {
		rg := <-rigs
		defer func() { rigs <- rg }()
		c := cases[i]
		c12One(env, rg.ch, rg.m, c)
		old, nw := c12Expand(c)
		if c.Kind == "small" {
			R.EvalBulk(1, b2i(len(nw) > 0 && !bytes.Equal(old, nw)))
		} else {
			R.Eval(c.Seed, len(nw) > 0 && !bytes.Equal(old, nw))
			R.Count("shape:"+c.Shape, 1)
		}
		if i == 1000 || i == nSmall+1 || i == len(cases)-1 {
			R.Sample(c)
		}
	})
	R.Extra["exhaustive_space"] = fmt.Sprintf("old over {0,1} of length 0..%d x new of length 0..%d x partitions 0..%d (%d cases)", maxO, maxN, maxP, nSmall)
	R.Exhaustive = true
	// lrufile
	nLru := 2000
	if env.Thorough() {
		nLru = 100000
	}
	lcases := make([]*C12Case, nLru)
	for i := range lcases {
		lcases[i] = &C12Case{Kind: "lru", Seed: rng.Next()}
	}
	wvlib.ParallelDo(nLru, env.Workers, func(i int) {
		rg := <-rigs
		defer func() { rigs <- rg }()
		c12Lru(env, rg.m, lcases[i])
		if i%4 == 0 {
			c12LruSessions(env, rg.m, lcases[i])
		}
		if i == 0 {
			R.Sample(lcases[i])
		}
	})
	close(rigs)
	for rg := range rigs {
		R.ModelLines += rg.m.Lines
		rg.m.Close()
		rg.ch.Close()
	}
}

func b2i(b bool) int64 {
	if b {
		return 1
	}
	return 0
}

// c12LruSessions: ONE lrufile object used for several files in a row (Reset between them, as the patcher reuses
// its PatchContext from file to file and from resume to resume); every session must behave like a fresh lrufile
// on that file (the model) and like a plain reader (the oracle).  Sessions often start reading exactly where the
// previous session's last chunk load ended.
func c12LruSessions(env *Env, m *wvlib.Model, c *C12Case) {
	r := wvlib.NewRng(c.Seed ^ 0x5e55)
	chunk := 1 + r.Intn(9)
	capN := 1 + r.Intn(4)
	lf, err := lrufile.New(int64(chunk), capN)
	if err != nil {
		return
	}
	lastLoadEnd := 0
	for sess := 0; sess < 2+r.Intn(3); sess++ {
		file := r.Bytes(r.Pick(chunk*capN+1, 3*chunk, r.Intn(60)+1, 40))
		var ops []string
		if sess > 0 && r.Bool() && lastLoadEnd <= len(file) {
			ops = append(ops, fmt.Sprintf("s%d", lastLoadEnd))
		}
		for i := 0; i < 1+r.Intn(8); i++ {
			if r.Intn(3) == 0 {
				ops = append(ops, fmt.Sprintf("s%d", r.Intn(len(file)+2)))
			} else {
				ops = append(ops, fmt.Sprintf("r%d", r.Pick(1, chunk, chunk+1, r.Intn(20))))
			}
		}
		sc := &C12Case{Kind: "lru-sessions", Seed: c.Seed, Chunk: chunk, Cap: capN, File: hex.EncodeToString(file), Ops: strings.Join(ops, ","), Split: sess}
		impl := func() (res string) {
			defer func() {
				if rec := recover(); rec != nil {
					res = fmt.Sprintf("PANIC %v", rec)
				}
			}()
			if err := lf.Reset(c12OldReader(file)); err != nil {
				return "ERR " + err.Error()
			}
			ref := bytes.NewReader(file)
			pos := 0
			var outs []string
			for _, op := range ops {
				var n int
				fmt.Sscan(op[1:], &n)
				if op[0] == 's' {
					if _, err := lf.Seek(int64(n), io.SeekStart); err != nil {
						outs = append(outs, "-")
						ref.Seek(0, io.SeekStart)
						pos = 0
					} else {
						outs = append(outs, "ok")
						ref.Seek(int64(n), io.SeekStart)
						pos = n
					}
				} else {
					buf := make([]byte, n)
					k, err := lf.Read(buf)
					if err != nil && err != io.EOF {
						return "ERR " + err.Error()
					}
					outs = append(outs, fmt.Sprintf("%d %d", k, wvlib.Fnv(buf[:k])))
					rb := make([]byte, n)
					rk, _ := io.ReadFull(ref, rb)
					if rk != k || !bytes.Equal(rb[:rk], buf[:k]) {
						env.R.Violate("lru-read-differs-after-reset", fmt.Sprintf("session %d op %s returned %d bytes %x, plain reader %d bytes %x", sess, op, k, buf[:k], rk, rb[:rk]), sc)
					}
					if k > 0 {
						pos += k
						// the chunk holding the last byte read was loaded (or hit); a load ends at the next chunk boundary
						lastLoadEnd = ((pos-1)/chunk + 1) * chunk
						if lastLoadEnd > len(file) {
							lastLoadEnd = len(file)
						}
					}
				}
			}
			st := lf.Stats()
			return strings.Join(outs, ";") + fmt.Sprintf(" hits=%d misses=%d", st.Hits, st.Misses) // Reset zeroes the counters
		}()
		if strings.HasPrefix(impl, "PANIC") || strings.HasPrefix(impl, "ERR") {
			env.R.Violate("lru-fails", impl, sc)
			return
		}
		ans, err := m.Ask(fmt.Sprintf("lru %d %d x:%s %s", chunk, capN, sc.File, sc.Ops))
		if err != nil {
			env.R.Disagree(sc, impl, "MODEL-DIED", "n/a")
		} else if ans != impl {
			env.R.Disagree(sc, impl, ans, "a session after Reset must behave like a fresh lrufile on that file")
		}
		env.R.Count("lru-sessions", 1)
	}
}

// c12Lru: one random op sequence on the real lrufile, the model, and a bytes.Reader.
func c12Lru(env *Env, m *wvlib.Model, c *C12Case) {
	var file []byte
	var ops []string
	if c.Ops == "" {
		r := wvlib.NewRng(c.Seed)
		c.Chunk = 1 + r.Intn(9)
		c.Cap = 1 + r.Intn(4)
		file = r.Bytes(r.Pick(0, 1, c.Chunk, c.Chunk*c.Cap, c.Chunk*c.Cap+1, r.Intn(60)))
		c.File = hex.EncodeToString(file)
		nops := 1 + r.Intn(25)
		for i := 0; i < nops; i++ {
			if r.Intn(3) == 0 {
				off := r.Intn(len(file) + 3)
				if r.Intn(10) == 0 {
					off = -1 - r.Intn(3)
				}
				ops = append(ops, fmt.Sprintf("s%d", off))
			} else {
				ops = append(ops, fmt.Sprintf("r%d", r.Pick(0, 1, c.Chunk, c.Chunk+1, r.Intn(30))))
			}
		}
		c.Ops = strings.Join(ops, ",")
	} else {
		file, _ = hex.DecodeString(c.File)
		ops = strings.Split(c.Ops, ",")
	}
	impl := func() (res string) {
		defer func() {
			if r := recover(); r != nil {
				res = fmt.Sprintf("PANIC %v", r)
			}
		}()
		lf, err := lrufile.New(int64(c.Chunk), c.Cap)
		if err != nil {
			return "ERR " + err.Error()
		}
		if err := lf.Reset(c12OldReader(file)); err != nil {
			return "ERR " + err.Error()
		}
		ref := bytes.NewReader(file)
		var outs []string
		for _, op := range ops {
			var n int
			fmt.Sscan(op[1:], &n)
			if op[0] == 's' {
				_, err := lf.Seek(int64(n), io.SeekStart)
				if err != nil {
					outs = append(outs, "-")
					ref.Seek(0, io.SeekStart)
				} else {
					outs = append(outs, "ok")
					ref.Seek(int64(n), io.SeekStart)
				}
			} else {
				buf := make([]byte, n)
				k, err := lf.Read(buf)
				if err != nil && err != io.EOF {
					return "ERR " + err.Error()
				}
				outs = append(outs, fmt.Sprintf("%d %d", k, wvlib.Fnv(buf[:k])))
				rb := make([]byte, n)
				rk, _ := io.ReadFull(ref, rb)
				if rk != k || !bytes.Equal(rb[:rk], buf[:k]) {
					env.R.Violate("lru-read-differs", fmt.Sprintf("op %s returned %d bytes %x, plain reader %d bytes %x", op, k, buf[:k], rk, rb[:rk]), c)
				}
			}
		}
		st := lf.Stats()
		return strings.Join(outs, ";") + fmt.Sprintf(" hits=%d misses=%d", st.Hits, st.Misses)
	}()
	if strings.HasPrefix(impl, "PANIC") || strings.HasPrefix(impl, "ERR") {
		env.R.Violate("lru-fails", impl, c)
	}
	ans, err := m.Ask(fmt.Sprintf("lru %d %d x:%s %s", c.Chunk, c.Cap, c.File, c.Ops))
	if err != nil {
		env.R.Disagree(c, impl, "MODEL-DIED", "n/a")
	} else if ans != impl {
		env.R.Disagree(c, impl, ans, "see violations")
	}
	env.R.Eval(c.Seed, len(file) > c.Chunk && len(ops) > 2)
	env.R.Count("lru", 1)
}

// c12OldReader: the old file as the patcher gets it; for a third of the files a ReadSeeker that hands out fewer
// bytes than asked for (io.Reader allows that at any time).
func c12OldReader(data []byte) io.ReadSeeker {
	if (len(data)+int(wvlib.Fnv(data)%7))%3 == 0 {
		return &c12ShortRS{Reader: bytes.NewReader(data), rng: wvlib.NewRng(uint64(len(data)) + 3)}
	}
	return bytes.NewReader(data)
}

type c12ShortRS struct {
	*bytes.Reader
	rng *wvlib.Rng
}

func (s *c12ShortRS) Read(p []byte) (int, error) {
	if len(p) > 1 {
		p = p[:1+s.rng.Intn(len(p))]
	}
	return s.Reader.Read(p)
}
