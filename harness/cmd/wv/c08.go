package main

import (
	"fmt"
	"strings"

	"wv/internal/wvlib"
)

func init() { runners["C08"] = runC08 }

type C08Case struct {
	Seed  uint64         `json:"seed"`
	Shape string         `json:"shape"` // edits | identical | renamed | duplicated | pair
	K     int            `json:"k,omitempty"`
	Size  int            `json:"size,omitempty"`
	Opts  wvlib.PairOpts `json:"opts,omitempty"`
}

func c08One(env *Env, m *wvlib.Model, c *C08Case) {
	r := wvlib.NewRng(c.Seed)
	old, nw := &wvlib.Build{}, &wvlib.Build{}
	introduced := map[string]int{}
	edits := map[string]int{}
	switch c.Shape {
	case "edits":
		n := 1 + r.Intn(3)
		for i := 0; i < n; i++ {
			p := fmt.Sprintf("d/f%d.bin", i)
			sz := c.Size
			if i > 0 {
				sz = r.Intn(6 * wvlib.BS)
			}
			od := r.Bytes(sz)
			nd, intro := wvlib.Edit(r, od, c.K)
			old.Entries = append(old.Entries, wvlib.BEntry{Path: p, Kind: 'f', Data: od})
			np := p
			if r.Intn(4) == 0 {
				np = fmt.Sprintf("moved/g%d.bin", i) // edited AND renamed
			}
			nw.Entries = append(nw.Entries, wvlib.BEntry{Path: np, Kind: 'f', Data: nd})
			introduced[np], edits[np] = intro, c.K
		}
	case "identical", "renamed", "duplicated":
		n := 1 + r.Intn(5)
		for i := 0; i < n; i++ {
			d := r.Bytes(r.Pick(0, 1, wvlib.BS-1, wvlib.BS, wvlib.BS+1, 2*wvlib.BS, 3*wvlib.BS+5, r.Intn(5*wvlib.BS)))
			p := fmt.Sprintf("a/f%d.bin", i)
			old.Entries = append(old.Entries, wvlib.BEntry{Path: p, Kind: 'f', Data: d})
			switch c.Shape {
			case "identical":
				nw.Entries = append(nw.Entries, wvlib.BEntry{Path: p, Kind: 'f', Data: d})
			case "renamed":
				nw.Entries = append(nw.Entries, wvlib.BEntry{Path: fmt.Sprintf("b/r%d.bin", i), Kind: 'f', Data: d})
			default:
				for j := 0; j < 1+r.Intn(3); j++ {
					nw.Entries = append(nw.Entries, wvlib.BEntry{Path: fmt.Sprintf("c/dup%d_%d.bin", i, j), Kind: 'f', Data: d})
				}
				if r.Bool() {
					nw.Entries = append(nw.Entries, wvlib.BEntry{Path: p, Kind: 'f', Data: d})
				}
			}
		}
	default:
		old, nw, _ = wvlib.GenPair(r, c.Opts)
	}
	old.Normalize()
	nw.Normalize()
	_, od, nd, clean := writePair(env.Scratch, old, nw)
	defer clean()
	ev, err := evalPair(env, m, od, nd, Comp{"none", 0}, nil, true)
	if err != nil {
		env.R.Violate("diff-error", err.Error(), c)
		return
	}
	// accounting
	total := int64(0)
	for _, f := range ev.NewFiles {
		total += int64(len(f))
	}
	// the same diff against the STORED signature of the old build (second push): nothing may be sent that the
	// in-memory signature finds
	if c.Seed%2 == 0 {
		sf, sr, serr := diffAgainstStored(od, nd)
		if serr != nil {
			env.R.Violate("diff-error", "against the stored signature: "+serr.Error(), c)
		} else if sf != ev.Res.Fresh || sr != ev.Res.Reused {
			env.R.Violate("stored-signature-finds-less", fmt.Sprintf("diff against the signature read back from its stream: fresh %d reused %d; against the computed signature: fresh %d reused %d", sf, sr, ev.Res.Fresh, ev.Res.Reused), c)
		}
		env.R.Count("diffed-against-stored-signature", 1)
	}
	if ev.Res.Fresh+ev.Res.Reused != total {
		env.R.Violate("accounting", fmt.Sprintf("fresh %d + reused %d != size of the new build %d", ev.Res.Fresh, ev.Res.Reused, total), c)
	}
	// fresh bytes per new file, from the patch itself
	_, _, msgs, _ := decodePatch(ev.Res.Patch)
	perFile := map[int64]int64{}
	cur := int64(-1)
	sumData := int64(0)
	hidden := int64(0)
	for _, mm := range msgs {
		if mm.Kind == "H" {
			cur = mm.B
		} else if mm.Kind == "O" && mm.A == 1 {
			perFile[cur] += int64(len(mm.Data))
			sumData += int64(len(mm.Data))
		} else if mm.Kind == "O" && len(mm.Data) > 0 {
			// file data travelling in a message that is not a DATA op (a block range or an end marker with a payload)
			hidden += int64(len(mm.Data))
		}
	}
	if hidden > 0 {
		env.R.Violate("file-data-outside-data-ops", fmt.Sprintf("%d bytes of payload are attached to non-DATA ops (the counters and the op structure do not show them, the patch carries them)", hidden), c)
	}
	// the patch as a whole: everything beyond the fresh bytes is framing (containers, headers, ops), a few bytes per message
	if over := int64(len(ev.Res.Patch)) - sumData; over > 4096+int64(len(msgs))*40+containerBytes(ev.Res) {
		env.R.Violate("patch-larger-than-its-contents", fmt.Sprintf("patch has %d bytes for %d fresh bytes and %d messages", len(ev.Res.Patch), sumData, len(msgs)), c)
	}
	if sumData != ev.Res.Fresh {
		env.R.Violate("fresh-counter-wrong", fmt.Sprintf("FreshBytes=%d but the patch carries %d data bytes", ev.Res.Fresh, sumData), c)
	}
	switch c.Shape {
	case "identical", "renamed", "duplicated":
		if sumData != 0 {
			env.R.Violate("resent-existing-data", fmt.Sprintf("%s build carries %d fresh bytes", c.Shape, sumData), c)
		}
	case "edits":
		for i, f := range ev.Res.New.Files {
			k, ok := edits[f.Path]
			if !ok {
				continue
			}
			bound := int64(introduced[f.Path]) + int64(2*k+2)*wvlib.BS
			if perFile[int64(i)] > bound {
				env.R.Violate("edit-bound-exceeded", fmt.Sprintf("%s: fresh %d > introduced %d + (2*%d+2) blocks = %d", f.Path, perFile[int64(i)], introduced[f.Path], k, bound), c)
			}
			env.R.Count("edit-bound-slack-blocks:"+fmt.Sprint((bound-perFile[int64(i)])/wvlib.BS), 1)
		}
	default:
		// any new file whose content equals an old file's contributes nothing
		for i, nf := range ev.NewFiles {
			for _, of := range ev.OldFiles {
				if string(nf) == string(of) && perFile[int64(i)] != 0 {
					env.R.Violate("resent-existing-data", fmt.Sprintf("new file %d equals an old file but carries %d fresh bytes", i, perFile[int64(i)]), c)
				}
			}
		}
	}
	if ev.ModelErr != nil {
		env.R.Disagree(c, ev.ImplCounts, "MODEL: "+ev.ModelErr.Error(), "n/a")
	} else if ev.ModelCounts != ev.ImplCounts {
		env.R.Disagree(c, "fresh reused = "+ev.ImplCounts, "fresh reused = "+ev.ModelCounts, "see violations")
	} else if ev.ModelMsgs != ev.ImplMsgs {
		env.R.Disagree(c, "msgs: "+firstDiffContext(ev.ImplMsgs, ev.ModelMsgs), "msgs: "+firstDiffContext(ev.ModelMsgs, ev.ImplMsgs), "see violations")
	}
	env.R.Eval(c.Seed, strings.Contains(ev.ImplMsgs, "R "))
	env.R.Count("shape:"+c.Shape, 1)
}

func runC08(env *Env) {
	R := env.R
	R.Rule = "edit scripts (k in 1..4 overwrites/insertions/deletions of arbitrary length and offset, also at block boundaries, on high-entropy files of 0..16 blocks, some renamed as well), identical / renamed / duplicated builds, general build pairs; distinct by seed; non-trivial = the patch reuses at least one block"
	if env.Replay != "" {
		var c C08Case
		replayCase(env, &c)
		m, _ := wvlib.StartModel()
		defer m.Close()
		c08One(env, m, &c)
		printOutcome(env)
		return
	}
	n := 140
	if env.Thorough() {
		n = 3000
	}
	rng := wvlib.NewRng(env.Seed)
	cases := make([]*C08Case, n)
	for i := range cases {
		c := &C08Case{Seed: rng.Next()}
		switch i % 7 {
		case 0, 1, 2, 3:
			c.Shape, c.K = "edits", 1+rng.Intn(4)
			c.Size = rng.Pick(wvlib.BS, 2*wvlib.BS+17, 8*wvlib.BS, 16*wvlib.BS+1, rng.Intn(16*wvlib.BS)+1)
			if env.Thorough() && i%50 == 0 {
				c.Size = 16*1024*1024 + rng.Intn(wvlib.BS)
			}
		case 4:
			c.Shape = []string{"identical", "renamed", "duplicated"}[rng.Intn(3)]
		case 5:
			c.Shape = "duplicated"
		default:
			c.Shape = "pair"
			c.Opts = wvlib.PairOpts{MaxFiles: 6}
		}
		cases[i] = c
	}
	models := startModels(env)
	wvlib.ParallelDo(n, env.Workers, func(i int) {
		m := <-models
		defer func() { models <- m }()
		c08One(env, m, cases[i])
		if i < 3 {
			R.Sample(cases[i])
		}
	})
	stopModels(env, models)
}

// containerBytes: encoded size of the two containers of a patch.
func containerBytes(res *DiffResult) int64 {
	return frameLen(res.Old) + frameLen(res.New)
}
