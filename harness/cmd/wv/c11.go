package main

import (
	"bytes"
	"context"
	"encoding/json"
	"fmt"
	"io"
	"os"
	"strings"

	"github.com/itchio/wharf/wsync"

	"wv/internal/wvlib"
)

func init() { runners["C11"] = runC11 }

// memPool is a lake.Pool over in-memory files.
type memPool struct{ files [][]byte }

func (p *memPool) GetSize(i int64) int64 { return int64(len(p.files[i])) }
func (p *memPool) GetReader(i int64) (io.Reader, error) {
	return p.GetReadSeeker(i)
}
func (p *memPool) GetReadSeeker(i int64) (io.ReadSeeker, error) {
	if i < 0 || int(i) >= len(p.files) {
		return nil, fmt.Errorf("memPool: no file %d", i)
	}
	return bytes.NewReader(p.files[i]), nil
}
func (p *memPool) Close() error { return nil }

// C11Case is a replayable C11 case.
type C11Case struct {
	Kind string   `json:"kind"`
	BS   int      `json:"bs"`
	Pref int64    `json:"pref"`
	Olds []string `json:"olds"` // hex, or a generator description for large cases
	New  string   `json:"new"`
	// for generated large cases
	Gen *C11Gen `json:"gen,omitempty"`
}

// C11Gen describes a large generated case (expanded identically on replay).
type C11Gen struct {
	Seed  uint64 `json:"seed"`
	Shape string `json:"shape"`
}

type sop struct {
	typ        wsync.OpType
	f, i, span int64
	data       []byte
}

type diffRig struct {
	ctxs map[int]*wsync.Context
}

func newDiffRig() *diffRig { return &diffRig{ctxs: map[int]*wsync.Context{}} }

func (d *diffRig) ctx(bs int) *wsync.Context {
	c, ok := d.ctxs[bs]
	if !ok {
		c = wsync.NewContext(bs)
		d.ctxs[bs] = c
	}
	return c
}

// diff runs the real signature + differ.
func (d *diffRig) diff(bs int, olds [][]byte, nw []byte, pref int64) (ops []sop, err error) {
	defer func() {
		if r := recover(); r != nil {
			err = fmt.Errorf("PANIC %v", r)
			// the context's buffer may be in any state now
			d.ctxs = map[int]*wsync.Context{}
		}
	}()
	ctx := d.ctx(bs)
	var sig []wsync.BlockHash
	for i, o := range olds {
		var src io.Reader = bytes.NewReader(o)
		if (len(o)+i+bs+len(nw))%3 == 0 {
			// a reader that hands its bytes out in pieces of 1..bs+1 and the LAST piece together with io.EOF
			// (compress/flate and archive/zip readers behave like that)
			src = &eofDataReader{data: o, chunk: 1 + (len(o)+len(nw))%(bs+1)}
		}
		err := ctx.CreateSignature(context.Background(), int64(i), src, func(h wsync.BlockHash) error {
			sig = append(sig, h)
			return nil
		})
		if err != nil {
			return nil, err
		}
	}
	lib := wsync.NewBlockLibrary(sig)
	var nsrc io.Reader = bytes.NewReader(nw)
	if (len(nw)+bs+len(olds))%4 == 0 {
		nsrc = &eofDataReader{data: nw, chunk: 1 + (len(nw)+len(olds))%(2*bs+1)}
	}
	err = ctx.ComputeDiff(nsrc, lib, func(op wsync.Operation) error {
		o := sop{typ: op.Type, f: op.FileIndex, i: op.BlockIndex, span: op.BlockSpan}
		if op.Type == wsync.OpData {
			o.data = append([]byte(nil), op.Data...)
		}
		ops = append(ops, o)
		return nil
	}, pref)
	return ops, err
}

func canonOps(ops []sop) string {
	var sb strings.Builder
	for k, o := range ops {
		if k > 0 {
			sb.WriteByte(';')
		}
		if o.typ == wsync.OpBlockRange {
			fmt.Fprintf(&sb, "R %d %d %d", o.f, o.i, o.span)
		} else {
			fmt.Fprintf(&sb, "D %d %d", len(o.data), wvlib.Fnv(o.data))
		}
	}
	return sb.String()
}

// c11Oracle checks the property directly on the implementation's ops (no model involved).
// It returns "" or a violation class and detail.
func c11Oracle(d *diffRig, bs int, olds [][]byte, nw []byte, ops []sop) (string, string) {
	var out []byte
	for k, o := range ops {
		switch o.typ {
		case wsync.OpBlockRange:
			if o.f < 0 || int(o.f) >= len(olds) {
				return "range-bad-file", fmt.Sprintf("op %d names file %d", k, o.f)
			}
			old := olds[o.f]
			nb := (int64(len(old)) + int64(bs) - 1) / int64(bs)
			if o.span < 1 || o.i < 0 || o.i+o.span > nb {
				return "range-out-of-bounds", fmt.Sprintf("op %d: blocks [%d,%d) of a %d-block file", k, o.i, o.i+o.span, nb)
			}
			for b := o.i; b < o.i+o.span; b++ {
				lo := b * int64(bs)
				hi := lo + int64(bs)
				if hi > int64(len(old)) {
					hi = int64(len(old))
				}
				out = append(out, old[lo:hi]...)
			}
			if k > 0 && ops[k-1].typ == wsync.OpBlockRange && ops[k-1].f == o.f && ops[k-1].i+ops[k-1].span == o.i {
				return "ranges-not-merged", fmt.Sprintf("ops %d,%d are consecutive ranges of file %d", k-1, k, o.f)
			}
		case wsync.OpData:
			if len(o.data) > wsync.MaxDataOp {
				return "data-op-too-large", fmt.Sprintf("op %d carries %d bytes", k, len(o.data))
			}
			if len(o.data) == 0 && k != 0 {
				return "empty-data-not-leading", fmt.Sprintf("op %d is an empty data op", k)
			}
			out = append(out, o.data...)
		default:
			return "unknown-op", fmt.Sprintf("op %d has type %d", k, o.typ)
		}
	}
	if !bytes.Equal(out, nw) {
		return "roundtrip", fmt.Sprintf("independent replay gives %d bytes (fnv %d), want %d bytes (fnv %d)", len(out), wvlib.Fnv(out), len(nw), wvlib.Fnv(nw))
	}
	// the real applier must agree as well
	var buf bytes.Buffer
	pool := &memPool{files: olds}
	actx := d.ctx(bs)
	for _, o := range ops {
		op := wsync.Operation{Type: o.typ, FileIndex: o.f, BlockIndex: o.i, BlockSpan: o.span, Data: o.data}
		if err := actx.ApplySingle(&buf, pool, op); err != nil {
			return "apply-error", err.Error()
		}
	}
	if !bytes.Equal(buf.Bytes(), nw) {
		return "roundtrip-applier", fmt.Sprintf("ApplySingle replay gives %d bytes, want %d", buf.Len(), len(nw))
	}
	// and so must the channel-fed applier (ApplyPatch), here on the same context right after the replay above
	if (len(nw)+len(ops))%4 == 0 {
		var buf2 bytes.Buffer
		ch := make(chan wsync.Operation, len(ops))
		for _, o := range ops {
			ch <- wsync.Operation{Type: o.typ, FileIndex: o.f, BlockIndex: o.i, BlockSpan: o.span, Data: o.data}
		}
		close(ch)
		if err := actx.ApplyPatch(&buf2, pool, ch); err != nil {
			return "apply-error", "ApplyPatch: " + err.Error()
		}
		if !bytes.Equal(buf2.Bytes(), nw) {
			return "roundtrip-applier", fmt.Sprintf("ApplyPatch replay gives %d bytes, want %d", buf2.Len(), len(nw))
		}
	}
	return "", ""
}

func c11ModelLine(sc *wvlib.Scratch, bs int, olds [][]byte, nw []byte, pref int64) (string, func()) {
	var sb strings.Builder
	var cleans []func()
	fmt.Fprintf(&sb, "c11 %d %d %d %d", bs, wsync.MaxDataOp, pref, len(olds))
	for _, o := range olds {
		t, c := sc.Tok(o)
		cleans = append(cleans, c)
		sb.WriteByte(' ')
		sb.WriteString(t)
	}
	t, c := sc.Tok(nw)
	cleans = append(cleans, c)
	sb.WriteByte(' ')
	sb.WriteString(t)
	return sb.String(), func() {
		for _, c := range cleans {
			c()
		}
	}
}

func hexs(bs [][]byte) []string {
	r := make([]string, len(bs))
	for i, b := range bs {
		r[i] = fmt.Sprintf("%x", b)
	}
	return r
}

// c11One evaluates one case on implementation, model and oracle.
func c11One(env *Env, d *diffRig, m *wvlib.Model, bs int, olds [][]byte, nw []byte, pref int64, mk func() interface{}) {
	ops, err := d.diff(bs, olds, nw, pref)
	impl := ""
	if err != nil {
		impl = "ERR " + err.Error()
		cls := "differ-error"
		if strings.HasPrefix(err.Error(), "PANIC") {
			cls = "differ-panic"
		}
		env.R.Violate(cls, err.Error(), mk())
	} else {
		impl = canonOps(ops)
		if cls, det := c11Oracle(d, bs, olds, nw, ops); cls != "" {
			env.R.Violate(cls, det, mk())
		}
	}
	line, clean := c11ModelLine(env.Scratch, bs, olds, nw, pref)
	ans, merr := m.Ask(line)
	clean()
	if merr != nil {
		env.R.Note("model error: %v", merr)
		env.R.Disagree(mk(), impl, "MODEL-DIED", "n/a")
		return
	}
	if ans != impl {
		env.R.Disagree(mk(), impl, ans, "see violations")
	}
}

// enumerate all byte strings of length n over alphabet k, calling f with a reused buffer.
func enumStrings(n, k int, f func([]byte)) {
	buf := make([]byte, n)
	var rec func(i int)
	rec = func(i int) {
		if i == n {
			f(buf)
			return
		}
		for s := 0; s < k; s++ {
			buf[i] = byte(s)
			rec(i + 1)
		}
	}
	rec(0)
}

type c11Work struct {
	bs   int
	k    int
	olds [][]byte
	maxN int
}

func runC11(env *Env) {
	if env.Replay != "" {
		c11Replay(env)
		return
	}
	R := env.R
	R.Rule = "exhaustive: every (block size, old files, new content, preferred index) of the stated small space, distinct by construction; non-trivial = new content non-empty and at least one old file non-empty. random: large contents built from old-file blocks, fresh runs and shifts; non-trivial = op list contains both a range and a data op or exceeds 4 MiB of data"
	// ---- exhaustive small space
	type cfg struct{ k, maxOld1, maxNew1, maxOld2, maxNew2, maxOld3, maxNew3 int }
	c := cfg{k: 2, maxOld1: 6, maxNew1: 8, maxOld2: 3, maxNew2: 7, maxOld3: 0, maxNew3: 0}
	ks := []int{2}
	if env.Thorough() {
		c = cfg{k: 2, maxOld1: 7, maxNew1: 9, maxOld2: 4, maxNew2: 9, maxOld3: 2, maxNew3: 7}
		ks = []int{2, 3}
	}
	var works []c11Work
	for _, k := range ks {
		cc := c
		if k == 3 {
			cc = cfg{k: 3, maxOld1: 5, maxNew1: 7, maxOld2: 2, maxNew2: 6, maxOld3: 0, maxNew3: 0}
		}
		for bs := 1; bs <= 4; bs++ {
			for lo := 0; lo <= cc.maxOld1; lo++ {
				enumStrings(lo, k, func(o []byte) {
					works = append(works, c11Work{bs, k, [][]byte{append([]byte(nil), o...)}, cc.maxNew1})
				})
			}
			for l1 := 0; l1 <= cc.maxOld2; l1++ {
				for l2 := 0; l2 <= cc.maxOld2; l2++ {
					enumStrings(l1, k, func(o1 []byte) {
						o1c := append([]byte(nil), o1...)
						enumStrings(l2, k, func(o2 []byte) {
							works = append(works, c11Work{bs, k, [][]byte{o1c, append([]byte(nil), o2...)}, cc.maxNew2})
						})
					})
				}
			}
			if cc.maxOld3 > 0 {
				for l1 := 0; l1 <= cc.maxOld3; l1++ {
					for l2 := 0; l2 <= cc.maxOld3; l2++ {
						for l3 := 0; l3 <= cc.maxOld3; l3++ {
							enumStrings(l1, k, func(o1 []byte) {
								o1c := append([]byte(nil), o1...)
								enumStrings(l2, k, func(o2 []byte) {
									o2c := append([]byte(nil), o2...)
									enumStrings(l3, k, func(o3 []byte) {
										works = append(works, c11Work{bs, k, [][]byte{o1c, o2c, append([]byte(nil), o3...)}, cc.maxNew3})
									})
								})
							})
						}
					}
				}
			}
		}
	}
	R.Note("exhaustive work items: %d", len(works))
	models := make(chan *wvlib.Model, env.Workers)
	for i := 0; i < env.Workers; i++ {
		m, err := wvlib.StartModel()
		if err != nil {
			fmt.Fprintln(os.Stderr, "cannot start model:", err)
			os.Exit(2)
		}
		models <- m
	}
	rigs := make(chan *diffRig, env.Workers)
	for i := 0; i < env.Workers; i++ {
		rigs <- newDiffRig()
	}
	wvlib.ParallelDo(len(works), env.Workers, func(wi int) {
		w := works[wi]
		m := <-models
		d := <-rigs
		defer func() { models <- m; rigs <- d }()
		var n, nt int64
		anyOld := false
		for _, o := range w.olds {
			if len(o) > 0 {
				anyOld = true
			}
		}
		for ln := 0; ln <= w.maxN; ln++ {
			enumStrings(ln, w.k, func(nw []byte) {
				for pref := int64(-1); pref < int64(len(w.olds)); pref++ {
					p := pref
					nwc := nw
					c11One(env, d, m, w.bs, w.olds, nwc, p, func() interface{} {
						return C11Case{Kind: "small", BS: w.bs, Pref: p, Olds: hexs(w.olds), New: fmt.Sprintf("%x", nwc)}
					})
					n++
					if ln > 0 && anyOld {
						nt++
					}
				}
			})
		}
		R.EvalBulk(n, nt)
		R.Count(fmt.Sprintf("exhaustive:bs=%d:k=%d:olds=%d", w.bs, w.k, len(w.olds)), n)
		if wi%5000 == 17 {
			R.Sample(C11Case{Kind: "small", BS: w.bs, Pref: -1, Olds: hexs(w.olds), New: "(all contents up to the bound)"})
		}
	})
	R.Exhaustive = true
	R.Extra["exhaustive_space"] = fmt.Sprintf("block sizes 1..4; alphabets %v; one old file <= %d x new <= %d; two old files <= %d x new <= %d; three old files <= %d x new <= %d; every preferred index", ks, c.maxOld1, c.maxNew1, c.maxOld2, c.maxNew2, c.maxOld3, c.maxNew3)

	// ---- random large cases
	nLarge := 30
	if env.Thorough() {
		nLarge = 300
	}
	rng := wvlib.NewRng(env.Seed)
	seeds := make([]uint64, nLarge)
	for i := range seeds {
		seeds[i] = rng.Next()
	}
	shapes := []string{"nomatch", "allmatch", "shifted", "mixed", "lowentropy", "exact4m", "tailblock", "midsize", "match-then-4m", "wrap-at-eof"}
	wvlib.ParallelDo(nLarge, env.Workers, func(i int) {
		m := <-models
		d := <-rigs
		defer func() { models <- m; rigs <- d }()
		g := &C11Gen{Seed: seeds[i], Shape: shapes[i%len(shapes)]}
		bs, olds, nw, pref := c11Expand(g)
		c11One(env, d, m, bs, olds, nw, pref, func() interface{} { return C11Case{Kind: "gen", Gen: g} })
		ops, _ := d.diff(bs, olds, nw, pref)
		hasR, hasD, big := false, false, false
		for _, o := range ops {
			if o.typ == wsync.OpBlockRange {
				hasR = true
			} else {
				hasD = true
				if len(o.data) >= wsync.MaxDataOp {
					big = true
				}
			}
		}
		R.Eval(seeds[i], (hasR && hasD) || big)
		R.Count("large:"+g.Shape, 1)
		if big {
			R.Count("large:has-4MiB-data-op", 1)
		}
		if i < 2 {
			R.Sample(map[string]interface{}{"kind": "gen", "gen": g, "bs": bs, "new_len": len(nw), "old_lens": lens(olds), "ops": len(ops)})
		}
	})
	close(models)
	for m := range models {
		R.ModelLines += m.Lines
		m.Close()
	}
}

func lens(bs [][]byte) []int {
	r := make([]int, len(bs))
	for i, b := range bs {
		r[i] = len(b)
	}
	return r
}

// c11Expand deterministically expands a generated large case.
func c11Expand(g *C11Gen) (bs int, olds [][]byte, nw []byte, pref int64) {
	r := wvlib.NewRng(g.Seed)
	bss := []int{1, 2, 3, 7, 64, 1000, 4096, 65536, 65536, 65536}
	switch g.Shape {
	case "allmatch", "shifted", "mixed", "lowentropy":
		// shapes with many matches: only large blocks, or the op list has millions of entries
		bss = []int{4096, 16384, 65536, 65536}
	}
	bs = bss[r.Intn(len(bss))]
	const M = wsync.MaxDataOp
	nOld := 1 + r.Intn(3)
	maxOld := 3 * 1024 * 1024
	if maxOld > 2000*bs {
		maxOld = 2000 * bs
	}
	for i := 0; i < nOld; i++ {
		var sz int
		switch r.Intn(5) {
		case 0:
			sz = 0
		case 1:
			sz = bs*r.Intn(40) + r.Intn(bs)
		case 2:
			sz = bs * (1 + r.Intn(40))
		default:
			sz = r.Intn(maxOld)
		}
		if g.Shape == "lowentropy" {
			olds = append(olds, r.SmallAlpha(sz, 2))
		} else {
			olds = append(olds, r.Bytes(sz))
		}
	}
	pref = int64(r.Intn(nOld+1)) - 1
	big := 2*M + r.Intn(M/2)
	pickOld := func() []byte { return olds[r.Intn(len(olds))] }
	switch g.Shape {
	case "nomatch":
		// pure fresh data of a length around interesting phases of the buffer
		phases := []int{M + 10, 2*M + 2*bs - 1, 2 * M, 2*M + 1, 2*M + bs, 2*M + bs + 1, big}
		nw = r.Bytes(phases[r.Intn(len(phases))])
	case "exact4m":
		nw = r.Bytes(M + r.Pick(-1, 0, 1, bs-1, bs, bs+1, 2*bs-2, 2*bs-1, 2*bs))
		if r.Bool() {
			nw = append(nw, pickOld()...)
		}
	case "allmatch":
		for len(nw) < big {
			o := pickOld()
			if len(o) == 0 {
				nw = append(nw, r.Bytes(bs+1)...)
				continue
			}
			nb := (len(o) + bs - 1) / bs
			a := r.Intn(nb)
			b := a + 1 + r.Intn(nb-a)
			hi := b * bs
			if hi > len(o) {
				hi = len(o)
			}
			nw = append(nw, o[a*bs:hi]...)
		}
	case "shifted":
		// old content shifted by a few bytes, repeatedly
		for len(nw) < big {
			nw = append(nw, r.Bytes(1+r.Intn(2*bs))...)
			nw = append(nw, pickOld()...)
		}
	case "lowentropy":
		nw = r.SmallAlpha(big, 2)
	case "wrap-at-eof":
		// the input ends exactly where the buffer is wrapped (its length is a multiple of the buffer size), with the
		// last position not a match: for block size 1 nothing is carried over the wrap and the window is then empty
		bs = r.Pick(1, 1, 1, 2, 3)
		olds = [][]byte{{1, 2, 3, 4, 5}, {}}
		pref = int64(r.Intn(3)) - 1
		nw = r.Bytes((M + 2*bs) * r.Pick(1, 1, 2))
		for i := range nw {
			if nw[i] >= 1 && nw[i] <= 5 && i%3 != 0 {
				nw[i] = 77 // few matches: keep the op list short
			}
		}
		nw[len(nw)-1] = 0xFF
		if r.Intn(4) == 0 {
			nw[len(nw)-1] = 3 // control: the last position is a match
		}
	case "match-then-4m":
		// a short fresh header, k kept blocks, then a fresh tail just above the data-op limit: at the end of the
		// input a block range is still held back while more than MaxDataOp of literal data follows it
		o := r.Bytes(bs * (3 + r.Intn(3)))
		olds = append(olds, o)
		if r.Bool() {
			nw = append(nw, r.Bytes(r.Intn(bs))...)
		}
		k := r.Pick(1, 1, 1, 2)
		if r.Intn(4) == 0 && M/bs+2 < 70000 {
			// as many kept blocks as make the buffer wrap right after the last match
			k = M/bs + 2
			for len(o) < k*bs {
				o = append(o, o...)
			}
			o = o[:k*bs]
			olds[len(olds)-1] = o
		}
		nw = append(nw, o[:k*bs]...)
		nw = append(nw, r.Bytes(M+r.Pick(1, 1, bs/2, bs-1, 0, bs, bs+1, 2*bs-1))...)
	case "tailblock":
		// long fresh run followed by material ending in a short tail block
		nw = r.Bytes(M + r.Intn(M))
		o := pickOld()
		nw = append(nw, o...)
		nw = append(nw, r.Bytes(r.Intn(3))...)
	case "midsize":
		// medium sizes: many structure cases quickly
		n := r.Intn(40 * bs)
		if n > 3*1024*1024 {
			n = 3 * 1024 * 1024
		}
		for len(nw) < n {
			if r.Bool() {
				nw = append(nw, r.Bytes(1+r.Intn(3*bs))...)
			} else {
				o := pickOld()
				if len(o) > 0 {
					a := r.Intn(len(o))
					b := a + r.Intn(len(o)-a+1)
					nw = append(nw, o[a:b]...)
				}
			}
		}
	default: // mixed
		for len(nw) < big {
			switch r.Intn(4) {
			case 0:
				nw = append(nw, r.Bytes(r.Intn(M+M/4))...)
			case 1:
				nw = append(nw, pickOld()...)
			default:
				o := pickOld()
				if len(o) > 0 {
					a := (r.Intn(len(o)) / bs) * bs
					b := a + r.Intn(len(o)-a+1)
					nw = append(nw, o[a:b]...)
				}
			}
		}
	}
	return
}

func c11Replay(env *Env) {
	b, err := os.ReadFile(env.Replay)
	if err != nil {
		fmt.Fprintln(os.Stderr, err)
		os.Exit(2)
	}
	var wrap struct {
		Case C11Case `json:"case"`
	}
	if err := json.Unmarshal(b, &wrap); err != nil || (wrap.Case.Kind == "") {
		json.Unmarshal(b, &wrap.Case)
	}
	c := wrap.Case
	var bs int
	var olds [][]byte
	var nw []byte
	var pref int64
	if c.Kind == "gen" {
		bs, olds, nw, pref = c11Expand(c.Gen)
	} else {
		bs, pref = c.BS, c.Pref
		for _, o := range c.Olds {
			var x []byte
			fmt.Sscanf(o, "%x", &x)
			olds = append(olds, x)
		}
		fmt.Sscanf(c.New, "%x", &nw)
	}
	m, err := wvlib.StartModel()
	if err != nil {
		fmt.Fprintln(os.Stderr, err)
		os.Exit(2)
	}
	defer m.Close()
	d := newDiffRig()
	c11One(env, d, m, bs, olds, nw, pref, func() interface{} { return c })
	ops, _ := d.diff(bs, olds, nw, pref)
	fmt.Printf("impl ops: %s\n", trunc(canonOps(ops), 1000))
	line, clean := c11ModelLine(env.Scratch, bs, olds, nw, pref)
	ans, _ := m.Ask(line)
	clean()
	fmt.Printf("model ops: %s\n", trunc(ans, 1000))
	env.R.EvalBulk(1, 1)
	for _, v := range env.R.Violations {
		fmt.Printf("oracle: %s: %s\n", v.Class, v.Detail)
	}
}

func trunc(s string, n int) string {
	if len(s) > n {
		return s[:n] + "..."
	}
	return s
}

// eofDataReader returns data in pieces of at most chunk bytes, the last piece together with io.EOF.
type eofDataReader struct {
	data  []byte
	chunk int
}

func (r *eofDataReader) Read(p []byte) (int, error) {
	if len(r.data) == 0 {
		return 0, io.EOF
	}
	n := r.chunk
	if n > len(p) {
		n = len(p)
	}
	if n >= len(r.data) {
		n = copy(p, r.data)
		r.data = nil
		return n, io.EOF
	}
	copy(p, r.data[:n])
	r.data = r.data[n:]
	return n, nil
}
