package main

import (
	"bytes"
	"context"
	"encoding/binary"
	"fmt"
	"io"
	"os"
	"strings"
	"time"

	"github.com/itchio/lake"
	"github.com/itchio/lake/pools/fspool"
	"github.com/itchio/lake/tlc"
	"github.com/itchio/savior"
	"github.com/itchio/wharf/pwr"
	"github.com/itchio/wharf/pwr/overlay"
	"github.com/itchio/wharf/pwr/rediff"
	"github.com/itchio/wharf/wire"

	"wv/internal/wvlib"
)

func init() {
	runners["C10"] = runC10
	childHandlers["C10"] = c10Child
}

var c10SigCache = map[string][]byte{}

// c10Child: `<consumer> <streamfile> <oldDir> <newDir>` -> `ok` | `err <msg>` | `panic <msg>`
func c10Child(line string) (res string) {
	f := strings.Fields(line)
	if len(f) != 4 {
		return "bad-request"
	}
	data, err := os.ReadFile(f[1])
	if err != nil {
		return "bad-request " + err.Error()
	}
	defer func() {
		if r := recover(); r != nil {
			res = fmt.Sprintf("panic %v", r)
		}
	}()
	oldDir, newDir := f[2], f[3]
	switch f[0] {
	case "apply":
		out, _ := os.MkdirTemp("", "wv-c10-")
		defer os.RemoveAll(out)
		_, err := applyFresh(data, oldDir, out+"/o", nil, nil)
		if err != nil {
			if strings.HasPrefix(err.Error(), "PANIC") {
				return "panic " + err.Error()
			}
			return "err " + err.Error()
		}
		return "ok"
	case "apply-safekeeper":
		// the old build read through the safekeeper (a caller that has the old build's signature at hand)
		sig, ok := c10SigCache[oldDir]
		if !ok {
			var serr error
			if sig, _, serr = oldSigBytes(oldDir, Comp{"none", 0}); serr != nil {
				return "bad-request " + serr.Error()
			}
			c10SigCache[oldDir] = sig
		}
		out, _ := os.MkdirTemp("", "wv-c10-")
		defer os.RemoveAll(out)
		_, err := applyFresh(data, oldDir, out+"/o", func(inner lake.Pool, _ *tlc.Container) (lake.Pool, error) {
			return pwr.NewSafeKeeper(pwr.SafeKeeperParams{Inner: inner, Open: func() (savior.SeekSource, error) { return bytesSource(sig), nil }})
		}, nil)
		if err != nil {
			if strings.HasPrefix(err.Error(), "PANIC") {
				return "panic " + err.Error()
			}
			return "err " + err.Error()
		}
		return "ok"
	case "optimize":
		rc, err := rediff.NewContext(rediff.Params{PatchReader: bytesSourceUnresumed(data), Consumer: quietConsumer,
			Compression: &pwr.CompressionSettings{Algorithm: pwr.CompressionAlgorithm_NONE}, ForceMapAll: true})
		if err != nil {
			return "err analyze: " + err.Error()
		}
		oldC, newC := rc.GetTargetContainer(), rc.GetSourceContainer()
		var out bytes.Buffer
		err = rc.Optimize(rediff.OptimizeParams{TargetPool: fspool.New(oldC, oldDir), SourcePool: fspool.New(newC, newDir), PatchWriter: &out})
		if err != nil {
			return "err optimize: " + err.Error()
		}
		return "ok"
	case "signature":
		si, err := pwr.ReadSignature(context.Background(), bytesSourceUnresumedResumed(data))
		if err != nil {
			return "err read: " + err.Error()
		}
		hi, err := pwr.ComputeHashInfo(si)
		if err != nil {
			return "err hashinfo: " + err.Error()
		}
		// use the groups like the validators do
		bv := pwr.NewBlockValidator(hi)
		for i := range si.Container.Files {
			bv.ValidateAsError(int64(i), 0, []byte{1, 2, 3})
			bv.ValidateAsWound(int64(i), 0, []byte{1, 2, 3})
		}
		return "ok"
	case "resume-plain", "resume-optimized":
		// the truncated stream is handed to a brand-new patcher that RESUMES from a checkpoint taken on the intact
		// stream (every checkpoint whose source offset lies inside what is left of the stream)
		return c10ResumeTruncated(f[0] == "resume-optimized", data, oldDir, newDir)
	case "overlay":
		w := &wvlib.MemFile{Data: make([]byte, 1000)}
		pc := &overlay.OverlayPatchContext{}
		if err := pc.Patch(bytesSource(data), w); err != nil {
			return "err " + err.Error()
		}
		return "ok"
	}
	return "bad-request"
}

type c10Full struct {
	patch []byte
	cks   [][]byte
	hdr   int64
	out   string
}

var c10FullCache = map[string]*c10Full{}

// c10FullRun: the intact stream of (oldDir,newDir) applied once with a consumer that always saves.
func c10FullRun(optimized bool, oldDir, newDir string) (*c10Full, error) {
	key := fmt.Sprint(optimized, oldDir)
	if f, ok := c10FullCache[key]; ok {
		return f, nil
	}
	res, err := diffDirs(oldDir, newDir, Comp{"none", 0}, nil)
	if err != nil {
		return nil, err
	}
	patch := res.Patch
	if optimized {
		o := optimizeReal(patch, oldDir, newDir, &C07Case{Force: true, OutComp: Comp{"none", 0}, Partitions: 1}, res)
		if o.err != "" {
			return nil, fmt.Errorf("%s", o.err)
		}
		patch = o.patch
	}
	out, _ := os.MkdirTemp("", "wv-c10r-")
	sv := &recSaver{stopAt: -1, every: 1}
	if _, err := c03Session(patch, oldDir, out+"/o", out+"/stage", "fresh", nil, sv); err != nil {
		return nil, err
	}
	f := &c10Full{patch: patch, cks: sv.saved, out: out, hdr: 4 + frameLen(&pwr.PatchHeader{Compression: Comp{"none", 0}.settings()})}
	c10FullCache[key] = f
	return f, nil
}

func c10ResumeTruncated(optimized bool, data []byte, oldDir, newDir string) string {
	full, err := c10FullRun(optimized, oldDir, newDir)
	if err != nil {
		return "ok" // nothing to resume from
	}
	tried, failed := 0, 0
	for _, b := range full.cks {
		ck, err := decodeCheckpoint(b)
		if err != nil || ck.MessageCheckpoint == nil || ck.MessageCheckpoint.SourceCheckpoint == nil {
			continue
		}
		if int64(len(data)) < full.hdr+ck.MessageCheckpoint.SourceCheckpoint.Offset {
			// the stream ends before the point the SOURCE is asked to restart from: the savior seek source (an
			// external dependency) slices with a negative length there; outside this property's quantifier
			continue
		}
		tried++
		_, err = c03Session(data, oldDir, full.out+"/o", full.out+"/stage", "fresh", ck, &recSaver{stopAt: -1, every: 1})
		if err != nil && strings.HasPrefix(err.Error(), "PANIC") {
			return "panic " + err.Error()
		}
		if err != nil {
			failed++
		}
		if tried >= 4 {
			break
		}
	}
	if failed > 0 {
		return fmt.Sprintf("err %d of %d resumed runs returned an error", failed, tried)
	}
	return "ok"
}

type C10Case struct {
	PairSeed   uint64 `json:"pair_seed"`
	Stream     string `json:"stream"` // plain | optimized | signature | overlay
	Comp       Comp   `json:"comp"`
	Consumer   string `json:"consumer"`          // apply | optimize | signature | overlay
	Empties    int    `json:"empties,omitempty"` // > 0: the base is c10SigBase(PairSeed, Empties, NonEmpty)
	NonEmpty   int    `json:"non_empty,omitempty"`
	Kind       string `json:"kind"` // truncate | mutate | sighashes
	Cut        int    `json:"cut,omitempty"`
	Mut        string `json:"mut,omitempty"` // description of the mutation
	MutSeed    uint64 `json:"mut_seed,omitempty"`
	DropHashes int    `json:"drop_hashes,omitempty"`
}

type c10Base struct {
	seed             uint64
	dir, od, nd      string
	oldC, newC       *tlc.Container
	plain, optimized map[string][]byte // by compression algo
	sig              map[string][]byte
	overlayStream    []byte
	msgs, omsgs      []PMsg
	cleanup          func()
}

// c10SigBase: only a signature, of a synthetic build with `empties` empty files (each owns one hash although it has
// no block) sorted before `nonEmpty` one-block files.
func c10SigBase(env *Env, seed uint64, empties, nonEmpty int) *c10Base {
	r := wvlib.NewRng(seed)
	bd := &wvlib.Build{}
	for i := 0; i < empties; i++ {
		bd.Entries = append(bd.Entries, wvlib.BEntry{Path: fmt.Sprintf("a%02d.empty", i), Kind: 'f'})
	}
	for i := 0; i < nonEmpty; i++ {
		bd.Entries = append(bd.Entries, wvlib.BEntry{Path: fmt.Sprintf("b%02d.bin", i), Kind: 'f', Data: r.Bytes(1 + r.Intn(40))})
	}
	dir := env.Scratch.Sub("c10sig")
	bd.Write(dir + "/b")
	b := &c10Base{seed: seed, dir: dir, od: dir + "/b", nd: dir + "/b", cleanup: func() { os.RemoveAll(dir) }, plain: map[string][]byte{}, optimized: map[string][]byte{}, sig: map[string][]byte{}}
	sig, _, err := oldSigBytes(dir+"/b", Comp{"none", 0})
	if err != nil {
		panic(err)
	}
	b.sig["none"] = sig
	b.newC, _ = tlc.WalkAny(dir+"/b", tlc.WalkOpts{})
	b.oldC = b.newC
	return b
}

func c10MakeBase(env *Env, seed uint64) *c10Base {
	c := &PairCase{Seed: seed, Opts: wvlib.PairOpts{MaxFiles: 4, SmallOnly: true}}
	old, nw := c.gen()
	// keep files small so that every truncation point can be tried
	shrink := func(b *wvlib.Build) {
		for i := range b.Entries {
			if len(b.Entries[i].Data) > 300 {
				b.Entries[i].Data = b.Entries[i].Data[:150+len(b.Entries[i].Data)%150]
			}
		}
	}
	shrink(old)
	shrink(nw)
	base, od, nd, clean := writePair(env.Scratch, old, nw)
	b := &c10Base{seed: seed, dir: base, od: od, nd: nd, cleanup: clean, plain: map[string][]byte{}, optimized: map[string][]byte{}, sig: map[string][]byte{}}
	for _, comp := range []Comp{{"none", 0}, {"gzip", 1}, {"brotli", 1}} {
		res, err := diffDirs(od, nd, comp, nil)
		if err != nil {
			panic(err)
		}
		b.oldC, b.newC = res.Old, res.New
		b.plain[comp.Algo] = res.Patch
		b.sig[comp.Algo] = res.Sig
		o := optimizeReal(res.Patch, od, nd, &C07Case{Force: true, OutComp: comp, Partitions: 1}, res)
		if o.err == "" {
			b.optimized[comp.Algo] = o.patch
		}
	}
	_, _, b.msgs, _ = decodePatch(b.plain["none"])
	if p, ok := b.optimized["none"]; ok {
		_, _, b.omsgs, _ = decodePatch(p)
	}
	// an overlay stream
	r := wvlib.NewRng(seed)
	oldF := r.Bytes(600)
	newF := append([]byte(nil), oldF...)
	newF[100] ^= 1
	newF = append(newF, r.Bytes(50)...)
	ov := &wvlib.MemFile{}
	ow, _ := overlay.NewOverlayWriter(bytes.NewReader(oldF), 0, ov, 0)
	ow.Write(newF)
	ow.Finalize()
	b.overlayStream = ov.Data
	return b
}

// frameBoundaries returns the byte offsets where frames end, for an uncompressed stream (magic + frames).
func frameBoundaries(data []byte) []int {
	var out []int
	pos := 4
	for pos < len(data) {
		l, n := binary.Uvarint(data[pos:])
		if n <= 0 {
			break
		}
		pos += n + int(l)
		if pos <= len(data) {
			out = append(out, pos)
		}
	}
	return out
}

func c10Oracle(env *Env, c *C10Case, ans string, crashed bool, diag string) string {
	switch {
	case crashed && strings.Contains(diag, "hang"):
		wvlib.NoteHang()
		env.R.Violate("hang:"+c.Consumer, diag, c)
		return "hang"
	case crashed:
		env.R.Violate("process-killed:"+c.Consumer, trunc(diag, 500), c)
		return "panic"
	case strings.HasPrefix(ans, "panic"):
		site := "other"
		for _, s := range []string{"isFullFileOp", "GetSize", "GetPath", "GetRelativePath", "ComputeHashInfo", "analyzePatch", "hashinfo", "rediff", "blockvalidator"} {
			if strings.Contains(ans, s) {
				site = s
				break
			}
		}
		_ = site
		cls := "panic:" + c.Consumer
		if strings.Contains(ans, "slice bounds out of range") {
			cls += ":slice-bounds"
		} else if strings.Contains(ans, "index out of range") {
			cls += ":index-out-of-range"
		} else if strings.Contains(ans, "divide by zero") {
			cls += ":divide-by-zero"
		}
		env.R.Violate(cls, trunc(ans, 400)+" ["+c.Kind+" "+c.Mut+"]", c)
		return "panic"
	case strings.HasPrefix(ans, "err"):
		return "err"
	case ans == "ok":
		return "ok"
	}
	env.R.Note("unexpected child answer: %s", trunc(ans, 200))
	return "?"
}

// mutateMsgs applies one field-level mutation; returns the new list and a description.
func mutateMsgs(r *wvlib.Rng, msgs []PMsg, nOld, nNew int) ([]PMsg, string) {
	out := append([]PMsg(nil), msgs...)
	if len(out) == 0 {
		return out, "none"
	}
	vals := []int64{-1, -2, 0, 1, 2, int64(nOld), int64(nOld) + 1, int64(nNew), 2049, 1 << 31, 1 << 40, -(1 << 40), 1<<62 + 5, -(1 << 62)}
	v := vals[r.Intn(len(vals))]
	k := r.Intn(len(out))
	m := out[k]
	desc := ""
	switch r.Intn(11) {
	case 10: // a control that moves the old-file cursor past the end of the old file, followed by one that adds
		for i := range out {
			j := (k + i) % len(out)
			if out[j].Kind == "C" && !out[j].Eof {
				out[j].A = []int64{1, 2, 300, 301, 2049, 1 << 20, 10 << 20}[r.Intn(7)]
				ins := PMsg{Kind: "C", Data: r.Bytes(r.Pick(1, 10, 200))}
				out = append(out[:j+1], append([]PMsg{ins}, out[j+1:]...)...)
				return out, fmt.Sprintf("msg %d control.seek=%d then an inserted control adding %d bytes", j, out[j].A, len(ins.Data))
			}
		}
	case 0: // drop a message (missing end markers among them)
		desc = fmt.Sprintf("drop msg %d (%s)", k, m.Kind)
		out = append(out[:k], out[k+1:]...)
		return out, desc
	case 1: // duplicate a message
		desc = fmt.Sprintf("dup msg %d (%s)", k, m.Kind)
		out = append(out[:k+1], out[k:]...)
		return out, desc
	case 2: // swap series kind
		for i := range out {
			j := (k + i) % len(out)
			if out[j].Kind == "H" {
				out[j].A = 1 - out[j].A
				if r.Intn(4) == 0 {
					out[j].A = v
				}
				return out, fmt.Sprintf("header %d type=%d", j, out[j].A)
			}
		}
	case 3: // truncate the message list
		desc = fmt.Sprintf("keep first %d msgs", k)
		return out[:k], desc
	}
	switch m.Kind {
	case "H":
		if r.Bool() {
			m.B = v
			desc = fmt.Sprintf("msg %d header.fileIndex=%d", k, v)
		} else {
			m.A = v
			desc = fmt.Sprintf("msg %d header.type=%d", k, v)
		}
	case "B":
		m.A = v
		desc = fmt.Sprintf("msg %d bsdiff.targetIndex=%d", k, v)
	case "C":
		switch r.Intn(4) {
		case 0:
			m.A = v
			desc = fmt.Sprintf("msg %d control.seek=%d", k, v)
		case 1:
			m.Data = r.Bytes(r.Pick(1, 50, 1000, 5000))
			desc = fmt.Sprintf("msg %d control.add=%d bytes", k, len(m.Data))
		case 2:
			m.Eof = !m.Eof
			desc = fmt.Sprintf("msg %d control.eof flipped", k)
		default:
			m.Data2 = r.Bytes(r.Pick(0, 1, 700))
			desc = fmt.Sprintf("msg %d control.copy=%d bytes", k, len(m.Data2))
		}
	case "O":
		switch r.Intn(5) {
		case 0:
			m.A = []int64{0, 1, 2, 3, 2048, 2049, 2050, -1, 1 << 33}[r.Intn(9)]
			desc = fmt.Sprintf("msg %d op.type=%d", k, m.A)
		case 1:
			m.B = v
			desc = fmt.Sprintf("msg %d op.fileIndex=%d", k, v)
		case 2:
			m.C = v
			desc = fmt.Sprintf("msg %d op.blockIndex=%d", k, v)
		case 3:
			m.D = v
			desc = fmt.Sprintf("msg %d op.blockSpan=%d", k, v)
		default:
			m.A, m.B, m.C, m.D = 0, v, vals[r.Intn(len(vals))], vals[r.Intn(len(vals))]
			desc = fmt.Sprintf("msg %d op=range(%d,%d,%d)", k, m.B, m.C, m.D)
		}
	}
	out[k] = m
	return out, desc
}

func runC10(env *Env) {
	R := env.R
	R.Rule = "valid streams (plain patch, optimized patch, signature, overlay; uncompressed, gzip, brotli) truncated at every byte (all of them for small streams) and field-level mutations of their messages (indices/spans negative, zero, huge; unknown op types; swapped series kinds; dropped/duplicated messages; controls out of range; fewer hashes), each fed to apply / optimize / ReadSignature+ComputeHashInfo / overlay Patch in an isolated child with a watchdog; distinct by (stream, cut or mutation seed); non-trivial = the stream differs from the valid one"
	nBases := 2
	nMut := 1500
	if env.Thorough() {
		nBases = 12
		nMut = 60000
	}
	type job struct {
		c    *C10Case
		data []byte
		msgs []PMsg // for model comparison (apply consumer, uncompressed)
		base *c10Base
	}
	var jobs []job
	rng := wvlib.NewRng(env.Seed)
	var bases []*c10Base
	if env.Replay != "" {
		var c C10Case
		replayCase(env, &c)
		var b *c10Base
		if c.Empties > 0 {
			b = c10SigBase(env, c.PairSeed, c.Empties, c.NonEmpty)
		} else {
			b = c10MakeBase(env, c.PairSeed)
		}
		defer b.cleanup()
		jobs = append(jobs, c10Rebuild(b, &c))
	} else {
		for bi := 0; bi < nBases; bi++ {
			b := c10MakeBase(env, rng.Next())
			bases = append(bases, b)
			addTrunc := func(stream, consumer string, comp Comp, data []byte) {
				if data == nil {
					return
				}
				cuts := map[int]bool{}
				if len(data) <= 1500 || env.Thorough() && len(data) <= 6000 {
					for i := 0; i < len(data); i++ {
						cuts[i] = true
					}
				} else {
					for _, fb := range frameBoundaries(data) {
						for _, d := range []int{-2, -1, 0, 1, 2} {
							if fb+d >= 0 && fb+d < len(data) {
								cuts[fb+d] = true
							}
						}
					}
					for k := 0; k < 300; k++ {
						cuts[rng.Intn(len(data))] = true
					}
				}
				for cut := range cuts {
					jobs = append(jobs, job{c: &C10Case{PairSeed: b.seed, Stream: stream, Comp: comp, Consumer: consumer, Kind: "truncate", Cut: cut}, data: data[:cut], base: b})
				}
			}
			for _, comp := range []Comp{{"none", 0}, {"gzip", 1}, {"brotli", 1}} {
				if comp.Algo != "none" && bi > 0 && !env.Thorough() {
					continue
				}
				addTrunc("plain", "apply", comp, b.plain[comp.Algo])
				addTrunc("plain", "optimize", comp, b.plain[comp.Algo])
				addTrunc("optimized", "apply", comp, b.optimized[comp.Algo])
				addTrunc("optimized", "optimize", comp, b.optimized[comp.Algo]) // the optimizer fed an already optimized patch
				addTrunc("signature", "signature", comp, b.sig[comp.Algo])
			}
			addTrunc("overlay", "overlay", Comp{"none", 0}, b.overlayStream)
			if bi < 2 || env.Thorough() {
				addTrunc("plain", "resume-plain", Comp{"none", 0}, b.plain["none"])
				addTrunc("optimized", "resume-optimized", Comp{"none", 0}, b.optimized["none"])
			}
		}
		for k := 0; k < nMut; k++ {
			b := bases[k%len(bases)]
			c := &C10Case{PairSeed: b.seed, Kind: "mutate", MutSeed: rng.Next(), Comp: Comp{"none", 0}}
			switch k % 5 {
			case 0:
				c.Stream, c.Consumer = "plain", "apply"
			case 1:
				c.Stream, c.Consumer = "optimized", "apply"
			case 2:
				c.Stream, c.Consumer = "plain", "apply-safekeeper"
			case 3:
				c.Stream, c.Consumer = "optimized", "apply-safekeeper"
			default:
				c.Stream, c.Consumer = "plain", "optimize"
			}
			if k%7 == 3 {
				c.Comp = Comp{"gzip", 1}
			}
			jobs = append(jobs, c10Rebuild(b, c))
		}
		// signatures with fewer / more hashes than the container needs (cut at frame boundaries is covered by truncation;
		// here: re-encode with k hashes dropped from the end)
		for _, b := range bases {
			for drop := 1; drop <= 6; drop++ {
				c := &C10Case{PairSeed: b.seed, Stream: "signature", Consumer: "signature", Kind: "sighashes", DropHashes: drop, Comp: Comp{"none", 0}}
				jobs = append(jobs, c10Rebuild(b, c))
			}
		}
		// the same for builds with empty files sorted first and a hash count just past a power of two (the capacity
		// ReadSignature's slice of hashes happens to have), short by 1..empties+1 hashes
		for _, total := range []int{5, 9, 17, 33} {
			for e := 1; e <= 3; e++ {
				b := c10SigBase(env, rng.Next(), e, total-e)
				bases = append(bases, b)
				for drop := 1; drop <= e+1; drop++ {
					c := &C10Case{PairSeed: b.seed, Empties: e, NonEmpty: total - e, Stream: "signature", Consumer: "signature", Kind: "sighashes", DropHashes: drop, Comp: Comp{"none", 0}}
					jobs = append(jobs, c10Rebuild(b, c))
				}
			}
		}
	}
	type rig struct {
		ch *wvlib.Child
		m  *wvlib.Model
	}
	rigs := make(chan *rig, env.Workers)
	for i := 0; i < env.Workers; i++ {
		ch, err := wvlib.StartChild("C10")
		if err != nil {
			fmt.Fprintln(os.Stderr, err)
			os.Exit(2)
		}
		m, err := wvlib.StartModel()
		if err != nil {
			fmt.Fprintln(os.Stderr, err)
			os.Exit(2)
		}
		rigs <- &rig{ch, m}
	}
	wvlib.ParallelDo(len(jobs), env.Workers, func(i int) {
		rg := <-rigs
		defer func() { rigs <- rg }()
		j := jobs[i]
		if j.data == nil && j.c.Kind != "truncate" {
			return
		}
		tok, clean := fileTok(env.Scratch, j.data)
		defer clean()
		ans, crashed, diag := rg.ch.Ask(fmt.Sprintf("%s %s %s %s", j.c.Consumer, tok, j.base.od, j.base.nd), wvlib.Watchdog(30*time.Second))
		cls := c10Oracle(env, j.c, ans, crashed, diag)
		R.Count("outcome:"+j.c.Consumer+":"+cls, 1)
		R.Count("kind:"+j.c.Kind+":"+j.c.Stream, 1)
		R.Eval(j.c.PairSeed^uint64(j.c.Cut)*0x9e37^j.c.MutSeed^uint64(len(j.c.Stream))<<50^uint64(len(j.c.Consumer))<<40, true)
		// model comparison: message-level outcome class of the applier
		osDependent := false
		for _, mm := range j.msgs {
			if mm.Kind == "O" && mm.A == 0 && (mm.C >= 1<<20 || mm.C <= -(1<<20)) {
				osDependent = true // a seek to an absurd offset: whether the OS rejects it depends on the filesystem
			}
		}
		if j.c.Consumer == "apply" && j.c.Kind == "mutate" && j.msgs != nil && !osDependent {
			mf, cl := writeMsgFile(env.Scratch, j.msgs)
			oa, c1 := filesArgs(env.Scratch, j.base.oldC, j.base.od)
			mans, merr := rg.m.Ask(fmt.Sprintf("patch %d %s %s * %s", wvlib.BS, mf, sizesCSV(j.base.newC), oa))
			cl()
			c1()
			mcls := "?"
			switch {
			case merr != nil:
				mcls = "MODEL-DIED"
			case strings.HasPrefix(mans, "ok"):
				mcls = "ok"
			case strings.HasPrefix(mans, "err"):
				mcls = "err"
			case strings.HasPrefix(mans, "panic"):
				mcls = "panic"
			}
			if mcls != cls {
				env.R.Disagree(j.c, cls+" ("+trunc(ans, 200)+")", mcls+" ("+trunc(mans, 200)+")", "see violations")
			}
			R.Count("model-compared:apply", 1)
		}
		if j.c.Consumer == "signature" && j.c.Kind == "sighashes" {
			total := 0
			for _, f := range j.base.newC.Files {
				nb := int((f.Size + wvlib.BS - 1) / wvlib.BS)
				if nb == 0 {
					nb = 1
				}
				total += nb
			}
			mans, _ := rg.m.Ask(fmt.Sprintf("hashinfo %d %s %d", wvlib.BS, sizesCSV(j.base.newC), total-j.c.DropHashes))
			mcls := strings.Fields(mans + " ?")[0]
			if mcls != cls {
				env.R.Disagree(j.c, cls+" ("+trunc(ans, 200)+")", mans, "see violations")
			}
			R.Count("model-compared:signature", 1)
		}
		if i%997 == 5 {
			R.Sample(j.c)
		}
	})
	close(rigs)
	for rg := range rigs {
		R.ModelLines += rg.m.Lines
		rg.m.Close()
		rg.ch.Close()
	}
	for _, b := range bases {
		b.cleanup()
	}
	if env.Replay != "" {
		printOutcome(env)
	}
}

func fileTok(sc *wvlib.Scratch, data []byte) (string, func()) {
	d := sc.Sub("s")
	p := d + "/stream.bin"
	os.WriteFile(p, data, 0o644)
	return p, func() { os.RemoveAll(d) }
}

// c10Rebuild builds the stream of a mutate / sighashes / truncate case from its description.
func c10Rebuild(b *c10Base, c *C10Case) (j struct {
	c    *C10Case
	data []byte
	msgs []PMsg
	base *c10Base
}) {
	j.c, j.base = c, b
	switch c.Kind {
	case "truncate":
		var data []byte
		switch c.Stream {
		case "plain":
			data = b.plain[c.Comp.Algo]
		case "optimized":
			data = b.optimized[c.Comp.Algo]
		case "signature":
			data = b.sig[c.Comp.Algo]
		case "overlay":
			data = b.overlayStream
		}
		if c.Cut <= len(data) {
			j.data = data[:c.Cut]
		}
	case "mutate":
		src := b.msgs
		if c.Stream == "optimized" {
			src = b.omsgs
		}
		if src == nil {
			return
		}
		r := wvlib.NewRng(c.MutSeed)
		msgs, desc := mutateMsgs(r, src, len(b.oldC.Files), len(b.newC.Files))
		c.Mut = desc
		data, err := encodePatch(b.oldC, b.newC, msgs, c.Comp)
		if err != nil {
			return
		}
		j.data, j.msgs = data, msgs
	case "sighashes":
		// re-encode the signature with the last DropHashes hashes missing
		si, err := pwr.ReadSignature(context.Background(), bytesSource(b.sig["none"]))
		if err != nil {
			return
		}
		var buf bytes.Buffer
		w := wire.NewWriteContext(&buf)
		w.WriteMagic(pwr.SignatureMagic)
		w.WriteMessage(&pwr.SignatureHeader{Compression: &pwr.CompressionSettings{Algorithm: pwr.CompressionAlgorithm_NONE}})
		w.WriteMessage(si.Container)
		n := len(si.Hashes) - c.DropHashes
		if n < 0 {
			n = 0
		}
		for _, h := range si.Hashes[:n] {
			w.WriteMessage(&pwr.BlockHash{WeakHash: h.WeakHash, StrongHash: h.StrongHash})
		}
		j.data = buf.Bytes()
		c.Mut = fmt.Sprintf("%d of %d hashes", n, len(si.Hashes))
	}
	return
}

var _ = io.EOF
