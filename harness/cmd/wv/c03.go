package main

import (
	"bytes"
	"encoding/binary"
	"encoding/gob"
	"encoding/json"
	"fmt"
	"github.com/golang/protobuf/proto"
	"github.com/itchio/lake/tlc"
	"github.com/itchio/wharf/bsdiff"
	"github.com/itchio/wharf/pwr"
	"os"
	"strings"

	"github.com/itchio/lake/pools/fspool"
	"github.com/itchio/savior/seeksource"
	"github.com/itchio/wharf/pwr/bowl"
	"github.com/itchio/wharf/pwr/patcher"

	"wv/internal/wvlib"
)

func init() { runners["C03"] = runC03 }

type C03Case struct {
	PairCase
	Optimized bool   `json:"optimized"`
	Bowl      string `json:"bowl"`     // fresh | overlay
	K         int    `json:"k"`        // checkpoint index to resume from (mod number offered)
	Lag       int    `json:"lag"`      // how many more checkpoints the first run reaches before it stops
	Truncate  int    `json:"truncate"` // 0: leave disk as is; 1: cut in-progress outputs back (never below the checkpointed offset)
	Chain     int    `json:"chain"`    // further interruptions after the first resume
}

// recSaver records serialised checkpoints; stops after `stopAt` saves (-1: never).
type recSaver struct {
	saved  [][]byte
	stopAt int
	every  int // ShouldSave answers true every `every` calls (1: always)
	calls  int
	onSave func(idx int) // called while checkpoint idx is being handed over (the patcher is inside Save)
}

func (s *recSaver) ShouldSave() bool {
	s.calls++
	return s.every <= 1 || s.calls%s.every == 0
}
func (s *recSaver) Save(c *patcher.Checkpoint) (patcher.AfterSaveAction, error) {
	var buf bytes.Buffer
	if err := gob.NewEncoder(&buf).Encode(c); err != nil {
		return patcher.AfterSaveStop, fmt.Errorf("checkpoint not serialisable: %v", err)
	}
	s.saved = append(s.saved, buf.Bytes())
	if s.onSave != nil {
		s.onSave(len(s.saved) - 1)
	}
	if s.stopAt >= 0 && len(s.saved) > s.stopAt {
		return patcher.AfterSaveStop, nil
	}
	return patcher.AfterSaveContinue, nil
}

// pmsgProto rebuilds the protobuf message of a decoded patch message.
func pmsgProto(m PMsg) proto.Message {
	switch m.Kind {
	case "H":
		return &pwr.SyncHeader{Type: pwr.SyncHeader_Type(m.A), FileIndex: m.B}
	case "B":
		return &pwr.BsdiffHeader{TargetIndex: m.A}
	case "C":
		return &bsdiff.Control{Add: m.Data, Copy: m.Data2, Seek: m.A, Eof: m.Eof}
	}
	return &pwr.SyncOp{Type: pwr.SyncOp_Type(m.A), FileIndex: m.B, BlockIndex: m.C, BlockSpan: m.D, Data: m.Data}
}

func frameLen(m proto.Message) int64 {
	n := proto.Size(m)
	var tmp [binary.MaxVarintLen64]byte
	return int64(binary.PutUvarint(tmp[:], uint64(n)) + n)
}

// msgOffsets: offset (as the series' message reader counts it: from the first byte after the patch header, in the
// decompressed stream) at which message j starts, j counting from the first SyncHeader; the last entry is the end.
func msgOffsets(oldC, newC *tlc.Container, msgs []PMsg) []int64 {
	off := frameLen(oldC) + frameLen(newC)
	out := make([]int64, 0, len(msgs)+1)
	for _, m := range msgs {
		out = append(out, off)
		off += frameLen(pmsgProto(m))
	}
	return append(out, off)
}

// c03Model: every checkpoint the real patcher offered must be one of the points at which the model says a
// checkpoint can be offered, with exactly the model's state (file, message boundary, kind, bytes written, old
// offset, target).  Theorem C03.resume_e2e then covers resumption from it.
func c03Model(env *Env, m *wvlib.Model, c *C03Case, patch []byte, od string, saved [][]byte, tag string) {
	oldC, newC, msgs, err := decodePatch(patch)
	if err != nil {
		return
	}
	var total int64
	for _, f := range oldC.Files {
		total += f.Size
	}
	if total > 3<<20 {
		return // keep the model side cheap
	}
	offs := msgOffsets(oldC, newC, msgs)
	idxOf := map[int64]int{}
	for j, o := range offs {
		idxOf[o] = j
	}
	mf, cl := writeMsgFile(env.Scratch, msgs)
	defer cl()
	oa, c1 := filesArgs(env.Scratch, oldC, od)
	defer c1()
	ans, merr := m.Ask(fmt.Sprintf("ckpts %d %s %s %s", wvlib.BS, mf, sizesCSV(newC), oa))
	if merr != nil {
		env.R.Disagree(c, fmt.Sprintf("%d checkpoints", len(saved)), "MODEL-DIED", "n/a")
		return
	}
	if ans == "err" || strings.HasPrefix(ans, "panic") {
		env.R.Disagree(c, "uninterrupted run ok", "model: "+ans, "n/a")
		return
	}
	model := map[string]bool{}
	for _, t := range strings.Fields(ans) {
		model[t] = true
	}
	env.R.Count("model-checkpoint-points:"+tag, int64(len(model)))
	for k, b := range saved {
		ck, err := decodeCheckpoint(b)
		if err != nil || ck.MessageCheckpoint == nil {
			continue
		}
		j, ok := idxOf[ck.MessageCheckpoint.Offset]
		if !ok {
			env.R.Disagree(c, fmt.Sprintf("checkpoint %d: message offset %d", k, ck.MessageCheckpoint.Offset), "not a message boundary of the stream", "n/a")
			return
		}
		tok := ""
		switch {
		case ck.RsyncCheckpoint != nil && ck.RsyncCheckpoint.WriterCheckpoint != nil:
			tok = fmt.Sprintf("%d:%d:R:%d:-:-", ck.FileIndex, j, ck.RsyncCheckpoint.WriterCheckpoint.Offset)
		case ck.BsdiffCheckpoint != nil && ck.BsdiffCheckpoint.WriterCheckpoint != nil:
			tok = fmt.Sprintf("%d:%d:B:%d:%d:%d", ck.FileIndex, j, ck.BsdiffCheckpoint.WriterCheckpoint.Offset, ck.BsdiffCheckpoint.OldOffset, ck.BsdiffCheckpoint.TargetIndex)
		default:
			tok = fmt.Sprintf("%d:%d:-", ck.FileIndex, j)
		}
		if !model[tok] {
			env.R.Disagree(c, fmt.Sprintf("checkpoint %d of the real run: %s", k, tok), "not among the model's checkpoint points: "+trunc(ans, 600), "n/a")
			return
		}
		env.R.Count("real-checkpoints-matched-to-model", 1)
	}
}

func decodeCheckpoint(b []byte) (*patcher.Checkpoint, error) {
	c := &patcher.Checkpoint{}
	err := gob.NewDecoder(bytes.NewReader(b)).Decode(c)
	return c, err
}

// session runs one patcher session on (outDir, stageDir) from checkpoint ck (nil: from the start).
// It returns the saver (with the checkpoints offered) and the error of Resume (ErrStop when stopped).
func c03Session(patch []byte, oldDir, outDir, stageDir, bowlKind string, ck *patcher.Checkpoint, sv *recSaver) (committed bool, err error) {
	defer func() {
		if r := recover(); r != nil {
			err = fmt.Errorf("PANIC %v", r)
		}
	}()
	p, err := patcher.New(seeksource.FromBytes(patch), quietConsumer)
	if err != nil {
		return false, err
	}
	p.SetSaveConsumer(sv)
	var b bowl.Bowl
	var targetDir string
	if bowlKind == "overlay" {
		targetDir = outDir
		b, err = bowl.NewOverlayBowl(bowl.OverlayBowlParams{SourceContainer: p.GetSourceContainer(), TargetContainer: p.GetTargetContainer(),
			OutputFolder: outDir, StageFolder: stageDir, Consumer: quietConsumer})
	} else {
		targetDir = oldDir
		b, err = bowl.NewFreshBowl(bowl.FreshBowlParams{SourceContainer: p.GetSourceContainer(), TargetContainer: p.GetTargetContainer(),
			TargetPool: fspool.New(p.GetTargetContainer(), oldDir), OutputFolder: outDir})
	}
	if err != nil {
		return false, err
	}
	targetPool := fspool.New(p.GetTargetContainer(), targetDir)
	err = p.Resume(ck, targetPool, b)
	if err != nil {
		b.Close()
		return false, err
	}
	if err = b.Commit(); err != nil {
		return false, err
	}
	return true, b.Close()
}

func c03One(env *Env, m *wvlib.Model, c *C03Case) {
	old, nw := c.gen()
	base, od, nd, clean := writePair(env.Scratch, old, nw)
	defer clean()
	res, err := diffDirs(od, nd, c.Comp, nil)
	if err != nil {
		env.R.Violate("diff-error", err.Error(), c)
		return
	}
	patch := res.Patch
	if c.Optimized {
		o := optimizeReal(patch, od, nd, &C07Case{Force: true, OutComp: c.Comp, Partitions: 1}, res)
		if o.err != "" {
			env.R.Note("optimizer: %s", o.err)
			return
		}
		patch = o.patch
	}
	tag := fmt.Sprintf("%s:%s", c.Bowl, c.Comp.Algo)
	mkOut := func(name string) (string, string) {
		out, stage := base+"/"+name, base+"/"+name+".stage"
		if c.Bowl == "overlay" {
			old.Write(out)
		}
		return out, stage
	}
	// 1. uninterrupted run, always asking to save
	out0, stage0 := mkOut("full")
	sv0 := &recSaver{stopAt: -1, every: 1}
	ok, err := c03Session(patch, od, out0, stage0, c.Bowl, nil, sv0)
	if err != nil || !ok {
		env.R.Violate("uninterrupted-run-fails:"+tag, fmt.Sprint(err), c)
		return
	}
	t0, _ := wvlib.ReadTree(out0)
	if d := wvlib.DiffTrees(t0, nw); d != "" {
		env.R.Violate("uninterrupted-run-wrong:"+tag, d, c)
		return
	}
	os.RemoveAll(out0)
	os.RemoveAll(stage0)
	nck := len(sv0.saved)
	env.R.Count("checkpoints-offered:"+tag, int64(nck))
	if m != nil {
		c03Model(env, m, c, patch, od, sv0.saved, tag)
	}
	if nck == 0 {
		// liveness: with an uncompressed stream a consumer that always wants to save must get checkpoints
		// as soon as some series has at least two messages after its first one
		if c.Comp.Algo == "none" && len(res.Patch) > 2000 {
			env.R.Count("no-checkpoint-offered:none", 1)
		}
		env.R.Eval(c.Seed^uint64(c.K)<<20, false)
		return
	}
	k := c.K % nck
	// 2. a run that gets `lag` checkpoints further than k, then stops (a crash later than checkpoint k)
	out1, stage1 := mkOut("crash")
	stopAt := k + c.Lag
	if stopAt > nck-1 {
		stopAt = nck - 1 // the crash must fall inside the patching phase: Commit is not resumable
	}
	sv1 := &recSaver{stopAt: stopAt, every: 1}
	// what the disk holds at the very moment checkpoint k is handed over (a process killed right there leaves this)
	snapOut, snapStage := base+"/snap", base+"/snap.stage"
	snapK := -1
	sv1.onSave = func(idx int) {
		if idx == k {
			snapK = idx
			copyTree(out1, snapOut)
			copyTree(stage1, snapStage)
		}
	}
	done1, err := c03Session(patch, od, out1, stage1, c.Bowl, nil, sv1)
	if err != nil && !strings.Contains(err.Error(), "stopped after save") {
		env.R.Violate("interrupted-run-fails:"+tag, err.Error(), c)
		return
	}
	if done1 {
		// this run was offered fewer checkpoints than the first one and ran to completion: nothing to resume
		env.R.Count("second-run-completed", 1)
		return
	}
	if k >= len(sv1.saved) {
		// the run finished before reaching k+lag; resume from the last checkpoint it offered instead
		k = len(sv1.saved) - 1
		if k < 0 {
			return
		}
	}
	ckBytes := sv1.saved[k]
	if !bytes.Equal(ckBytes, sv0.saved[k]) {
		env.R.Count("checkpoint-bytes-differ-between-runs", 1)
	}
	if c.Truncate == 1 && c.Bowl == "fresh" {
		// lose a tail of what was written after the checkpoint: cut every output file back to a length that is
		// still >= any offset the checkpoint may refer to (conservatively: keep at least the bytes equal to new)
		ck, _ := decodeCheckpoint(ckBytes)
		if ck != nil && ck.FileIndex < int64(len(res.New.Files)) {
			f := res.New.Files[ck.FileIndex]
			var off int64
			if ck.RsyncCheckpoint != nil && ck.RsyncCheckpoint.WriterCheckpoint != nil {
				off = ck.RsyncCheckpoint.WriterCheckpoint.Offset
			}
			if ck.BsdiffCheckpoint != nil && ck.BsdiffCheckpoint.WriterCheckpoint != nil {
				off = ck.BsdiffCheckpoint.WriterCheckpoint.Offset
			}
			p := out1 + "/" + f.Path
			if st, err := os.Stat(p); err == nil && st.Size() > off {
				r := wvlib.NewRng(c.Seed ^ 0x7a)
				cut := off + int64(r.Intn(int(st.Size()-off)+1))
				os.Truncate(p, cut)
				env.R.Count("truncated-in-progress-output", 1)
			}
			// later files may hold garbage from the crashed run: scribble on them
			for i := int(ck.FileIndex) + 1; i < len(res.New.Files) && i < int(ck.FileIndex)+3; i++ {
				os.WriteFile(out1+"/"+res.New.Files[i].Path, []byte("stale bytes left by the crashed run"), 0o644)
			}
		}
	}
	// 3. resume in a brand-new patcher and bowl from a fresh copy of the serialised checkpoint; optionally chain
	remaining := c.Chain
	for {
		ck, err := decodeCheckpoint(ckBytes)
		if err != nil {
			env.R.Violate("checkpoint-not-deserialisable:"+tag, err.Error(), c)
			return
		}
		stop := -1
		if remaining > 0 {
			stop = 1 + c.Lag
		}
		sv := &recSaver{stopAt: stop, every: 1 + c.K%3}
		committed, err := c03Session(patch, od, out1, stage1, c.Bowl, ck, sv)
		if err != nil && strings.Contains(err.Error(), "stopped after save") && len(sv.saved) > 0 {
			ckBytes = sv.saved[len(sv.saved)-1-(c.K%len(sv.saved))%2]
			if len(sv.saved) == 1 {
				ckBytes = sv.saved[0]
			}
			remaining--
			env.R.Count("chained-interruptions", 1)
			continue
		}
		if err != nil || !committed {
			cls := "resume-fails:"
			if err != nil && strings.HasPrefix(err.Error(), "PANIC") {
				cls = "resume-panics:"
			}
			env.R.Violate(cls+tag, fmt.Sprintf("resuming from checkpoint %d of %d (lag %d): %v", k, nck, c.Lag, err), c)
			return
		}
		break
	}
	t1, _ := wvlib.ReadTree(out1)
	if d := wvlib.DiffTrees(t1, t0); d != "" {
		env.R.Violate("resumed-result-differs:"+tag, fmt.Sprintf("checkpoint %d of %d, lag %d, truncate %d: %s", k, nck, c.Lag, c.Truncate, d), c)
	}
	// 4. the process is killed while checkpoint k is being handed over: resume on the disk as it was then
	if snapK == k {
		if ck, err := decodeCheckpoint(sv1.saved[k]); err == nil {
			committed, err := c03Session(patch, od, snapOut, snapStage, c.Bowl, ck, &recSaver{stopAt: -1, every: 1})
			if err != nil || !committed {
				env.R.Violate("resume-fails:killed-at-hand-off:"+tag, fmt.Sprintf("checkpoint %d of %d: %v", k, nck, err), c)
			} else {
				t2, _ := wvlib.ReadTree(snapOut)
				if d := wvlib.DiffTrees(t2, t0); d != "" {
					env.R.Violate("resumed-result-differs:killed-at-hand-off:"+tag, fmt.Sprintf("checkpoint %d of %d, disk as it was when the checkpoint was handed over: %s", k, nck, d), c)
				}
			}
			env.R.Count("resumed-on-disk-as-of-hand-off:"+tag, 1)
		}
	}
	env.R.Eval(c.Seed^uint64(c.K)<<20^uint64(c.Lag)<<30, true)
	env.R.Count("resumed:"+tag, 1)
	if c.Optimized {
		env.R.Count("optimized", 1)
	}
}

func runC03(env *Env) {
	R := env.R
	R.Rule = "build pairs x {plain, optimized} x {none, gzip, brotli} x {fresh, overlay}: an uninterrupted run offers checkpoints (gob-serialised); a second run reaches checkpoint k+lag and stops (disk ahead of checkpoint k), in-progress output optionally cut back / later files scribbled; a brand-new patcher and bowl resume from a fresh copy of checkpoint k, possibly interrupted again (chains); final tree compared with the uninterrupted result; distinct by (seed, k, lag); non-trivial = a checkpoint was resumed"
	if env.Replay != "" {
		var c C03Case
		replayCase(env, &c)
		m, _ := wvlib.StartModel()
		defer m.Close()
		c03One(env, m, &c)
		printOutcome(env)
		return
	}
	n := 240
	if env.Thorough() {
		n = 6000
	}
	rng := wvlib.NewRng(env.Seed)
	comps := []Comp{{"none", 0}, {"gzip", 1}, {"brotli", 1}}
	cases := make([]*C03Case, n)
	for i := range cases {
		o := wvlib.PairOpts{MaxFiles: 4, Symlinks: i%3 == 0}
		if i%2 == 0 {
			o.SmallOnly = true
		}
		c := &C03Case{PairCase: PairCase{Seed: rng.Next(), Opts: o, Comp: comps[i%3]}, Optimized: (i/3)%2 == 1,
			Bowl: []string{"fresh", "overlay"}[(i/6)%2], K: rng.Intn(1000), Lag: rng.Pick(0, 0, 1, 3), Truncate: i % 2, Chain: rng.Pick(0, 0, 1, 2)}
		if i%5 == 0 {
			c.K = rng.Pick(0, 1, 2) // boundary-biased: the first checkpoints
		}
		cases[i] = c
	}
	for _, raw := range corpusCases(env, "C03") {
		c := &C03Case{}
		if json.Unmarshal(raw, c) == nil {
			cases = append([]*C03Case{c}, cases...)
		}
	}
	n = len(cases)
	models := startModels(env)
	wvlib.ParallelDo(n, env.Workers, func(i int) {
		m := <-models
		defer func() { models <- m }()
		c03One(env, m, cases[i])
		if i < 3 {
			R.Sample(cases[i])
		}
	})
	stopModels(env, models)
}
