package main

import (
	"bytes"
	"context"
	"fmt"
	"github.com/itchio/headway/state"
	"os"
	"sort"
	"strings"
	"time"

	"github.com/itchio/wharf/archiver"
	"github.com/itchio/wharf/pwr"

	"wv/internal/wvlib"
)

func init() { runners["C06"] = runC06 }

type C06Case struct {
	Seed   uint64           `json:"seed"`
	Opts   wvlib.PairOpts   `json:"opts"`
	Dmg    wvlib.DamageOpts `json:"damage_opts"`
	Shape  string           `json:"shape,omitempty"` // "" | valid | empty | missing
	Damage []string         `json:"damage,omitempty"`
	// ManyDirs/ManyLinks: extra directories and symlinks in the signed build (more structural wounds than the
	// wounds channel holds when the target is empty or missing)
	ManyDirs  int `json:"many_dirs,omitempty"`
	ManyLinks int `json:"many_links,omitempty"`
}

func treeCanonLines(b *wvlib.Build) string {
	var ls []string
	for _, e := range b.Entries {
		switch e.Kind {
		case 'd':
			ls = append(ls, e.Path+" d")
		case 'f':
			ls = append(ls, fmt.Sprintf("%s f %d %d", e.Path, len(e.Data), wvlib.Fnv(e.Data)))
		case 'l':
			ls = append(ls, fmt.Sprintf("%s l %s", e.Path, e.Dest))
		}
	}
	sort.Strings(ls)
	return strings.Join(ls, ";")
}

func c06One(env *Env, m *wvlib.Model, c *C06Case) {
	r := wvlib.NewRng(c.Seed)
	b := wvlib.GenBuild(r, c.Opts)
	for i := 0; i < c.ManyDirs; i++ {
		b.Entries = append(b.Entries, wvlib.BEntry{Path: fmt.Sprintf("many/d%02d/e%04d", i%7, i), Kind: 'd'})
	}
	for i := 0; i < c.ManyLinks; i++ {
		b.Entries = append(b.Entries, wvlib.BEntry{Path: fmt.Sprintf("many/l%04d", i), Kind: 'l', Dest: "d00"})
	}
	if c.ManyDirs+c.ManyLinks > 0 {
		b.Normalize()
	}
	base := env.Scratch.Sub("c06")
	defer os.RemoveAll(base)
	sig, err := signBuild(base+"/signed", b)
	if err != nil {
		env.R.Note("sign: %v", err)
		return
	}
	var zbuf bytes.Buffer
	if _, err := archiver.CompressZip(&zbuf, base+"/signed", quietConsumer); err != nil {
		env.R.Note("zip: %v", err)
		return
	}
	zp := base + "/build.zip"
	if c.Seed%3 == 0 {
		// configuration: the heal spec is "archive,<path>" and the path itself may contain commas
		os.MkdirAll(base+"/releases/v1.0,final, really", 0o755)
		zp = base + "/releases/v1.0,final, really/build,1.zip"
		env.R.Count("archive-path-with-commas", 1)
	}
	os.WriteFile(zp, zbuf.Bytes(), 0o644)
	dd := base + "/disk"
	var dmg *wvlib.Build
	switch c.Shape {
	case "valid":
		dmg = b.Clone()
	case "empty":
		dmg = &wvlib.Build{}
		os.MkdirAll(dd, 0o755)
	case "missing":
		dmg = &wvlib.Build{}
	case "dirsymlink":
		// a directory moved aside, a symlink to the moved copy left in its place
		dmg = b.Clone()
		var dirs []string
		for _, e := range dmg.Entries {
			if e.Kind == 'd' {
				for _, f := range dmg.Entries {
					if strings.HasPrefix(f.Path, e.Path+"/") {
						dirs = append(dirs, e.Path)
						break
					}
				}
			}
		}
		if len(dirs) == 0 {
			return
		}
		p := dirs[r.Intn(len(dirs))]
		moved := p + ".moved"
		for i := range dmg.Entries {
			if dmg.Entries[i].Path == p || strings.HasPrefix(dmg.Entries[i].Path, p+"/") {
				dmg.Entries[i].Path = moved + dmg.Entries[i].Path[len(p):]
			}
		}
		bn := moved
		if i := strings.LastIndex(moved, "/"); i >= 0 {
			bn = moved[i+1:]
		}
		dmg.Entries = append(dmg.Entries, wvlib.BEntry{Path: p, Kind: 'l', Dest: bn})
		c.Damage = []string{"dir->symlink-to-moved-copy " + p}
		if r.Bool() {
			// and some damage inside the moved copy
			for i := range dmg.Entries {
				if strings.HasPrefix(dmg.Entries[i].Path, moved+"/") && dmg.Entries[i].Kind == 'f' && len(dmg.Entries[i].Data) > 0 {
					dmg.Entries[i].Data[0] ^= 1
					c.Damage = append(c.Damage, "flip "+dmg.Entries[i].Path)
					break
				}
			}
		}
	case "dirloop":
		// a directory (with everything below it) replaced by a symlink that leads back to itself: every path below
		// it fails to resolve with ELOOP
		dmg = b.Clone()
		var dirs []string
		for _, e := range dmg.Entries {
			if e.Kind == 'd' {
				dirs = append(dirs, e.Path)
			}
		}
		if len(dirs) == 0 {
			return
		}
		p := dirs[r.Intn(len(dirs))]
		var keep []wvlib.BEntry
		for _, e := range dmg.Entries {
			if e.Path != p && !strings.HasPrefix(e.Path, p+"/") {
				keep = append(keep, e)
			}
		}
		bn := p
		if i := strings.LastIndex(p, "/"); i >= 0 {
			bn = p[i+1:]
		}
		if r.Bool() {
			keep = append(keep, wvlib.BEntry{Path: p, Kind: 'l', Dest: bn})
		} else {
			keep = append(keep, wvlib.BEntry{Path: p, Kind: 'l', Dest: bn + ".loop"}, wvlib.BEntry{Path: p + ".loop", Kind: 'l', Dest: bn})
		}
		dmg.Entries = keep
		c.Damage = []string{"dir->symlink-loop " + p}
	default:
		dmg, c.Damage = wvlib.Damage(r, b, c.Dmg)
	}
	if c.Shape != "missing" {
		if err := dmg.Write(dd); err != nil {
			env.R.Note("materialise %v: %v", c.Damage, err)
			return
		}
	}
	before, _ := wvlib.ReadTree(dd)
	if before == nil {
		before = &wvlib.Build{}
	}
	// the caller's consumer may implement any subset of the callbacks
	cons := quietConsumer
	switch c.Seed % 4 {
	case 1:
		cons = &state.Consumer{OnProgressLabel: func(string) {}}
	case 2:
		cons = &state.Consumer{OnMessage: func(string, string) {}}
	case 3:
		cons = &state.Consumer{OnProgressLabel: func(string) {}, OnMessage: func(string, string) {}, OnProgress: func(float64) {}}
	}
	vctx := &pwr.ValidatorContext{HealPath: "archive," + zp, Consumer: cons}
	done := make(chan error, 1)
	go func() {
		defer func() {
			if rec := recover(); rec != nil {
				done <- fmt.Errorf("PANIC %v", rec)
			}
		}()
		done <- vctx.Validate(context.Background(), dd, sig)
	}()
	var herr error
	select {
	case herr = <-done:
	case <-time.After(wvlib.Watchdog(30 * time.Second)):
		wvlib.NoteHang()
		env.R.Violate("heal-does-not-return", fmt.Sprintf("damage %v", c.Damage), c)
		return
	}
	after, _ := wvlib.ReadTree(dd)
	if after == nil {
		after = &wvlib.Build{}
	}
	dmgClass := "other"
	for _, d := range c.Damage {
		if strings.HasPrefix(d, "dir->symlink-to-moved-copy") {
			dmgClass = "dir->symlink-to-moved-copy"
		} else if strings.HasPrefix(d, "dir->symlink-loop") {
			dmgClass = "dir->symlink-loop"
		} else if strings.HasPrefix(d, "dir->file") && dmgClass == "other" {
			dmgClass = "dir->file"
		}
	}
	impl := "err"
	if herr != nil {
		env.R.Violate("heal-error:"+dmgClass, fmt.Sprintf("damage %v: %v", c.Damage, herr), c)
	} else {
		impl = "ok " + treeCanonLines(after)
		// every signed entry present with exactly the signed content
		var bad []string
		for _, e := range b.Entries {
			g := after.Find(e.Path)
			switch {
			case g == nil:
				bad = append(bad, "missing "+e.Path)
			case g.Kind != e.Kind:
				bad = append(bad, "kind "+e.Path)
			case e.Kind == 'f' && !bytes.Equal(g.Data, e.Data):
				bad = append(bad, "content "+e.Path)
			case e.Kind == 'l' && g.Dest != e.Dest:
				bad = append(bad, "dest "+e.Path)
			}
		}
		if len(bad) > 0 {
			env.R.Violate("heal-incomplete:"+dmgClass, fmt.Sprintf("damage %v: heal returned nil but %s", c.Damage, strings.Join(bad[:min(len(bad), 5)], ", ")), c)
		} else if verr := pwr.AssertValid(dd, sig); verr != nil {
			env.R.Violate("healed-tree-invalid:"+dmgClass, fmt.Sprintf("damage %v: %v", c.Damage, verr), c)
		}
		if c.Shape == "valid" {
			if d := wvlib.DiffTrees(after, before); d != "" {
				env.R.Violate("valid-tree-changed", d, c)
			}
		}
	}
	// ---- model (the sequential schedule). Since the repair of F15 the outcome no longer depends on how validator
	// and healer interleave, also when a directory was replaced by a symlink (theorem
	// heal_restores_any_tree_any_schedule): every case is compared.
	if c.Shape != "missing" && c.ManyDirs+c.ManyLinks <= 200 {
		sl, dl := base+"/signed.lst", base+"/disk.lst"
		writeSignedListing(sl, sig.Container, b, env.Scratch)
		writeDiskListing(dl, before)
		ans, merr := m.Ask(fmt.Sprintf("heal %d %d %s %s", wvlib.BS, pwr.MaxWoundSize, sl, dl))
		// normalise the model's listing to the same line format
		mcmp := ans
		if strings.HasPrefix(ans, "ok ") {
			var ls []string
			for _, l := range strings.Split(ans[3:], ";") {
				if l == "" {
					continue
				}
				f := strings.SplitN(l, " ", 2)
				ls = append(ls, f[0]+" "+f[1])
			}
			sort.Strings(ls)
			mcmp = "ok " + strings.Join(ls, ";")
		}
		if merr != nil {
			env.R.Disagree(c, trunc(impl, 300), "MODEL-DIED", "n/a")
		} else if mcmp != impl {
			env.R.Disagree(c, "tree: "+firstDiffContext(impl, mcmp), "tree: "+firstDiffContext(mcmp, impl), fmt.Sprintf("damage %v", c.Damage))
		}
	}
	env.R.Eval(c.Seed, c.Shape != "valid")
	for _, d := range c.Damage {
		env.R.Count("damage:"+strings.Fields(d)[0], 1)
	}
	if c.Shape != "" {
		env.R.Count("shape:"+c.Shape, 1)
	}
}

func runC06(env *Env) {
	R := env.R
	R.Rule = "random builds (nested dirs, symlinks, empty files) x damage sequences as in C05 plus kind swaps hiding subtrees (dir->file, dir->symlink to a moved copy, file->non-empty dir), an empty and a missing target directory (also for builds with > 1024 directories + symlinks: more structural wounds than the wounds channel holds), already-valid trees; healed with the real archive healer from a zip of the signed build; distinct by seed; non-trivial = the directory needed healing"
	if env.Replay != "" {
		var c C06Case
		replayCase(env, &c)
		m, _ := wvlib.StartModel()
		defer m.Close()
		c06One(env, m, &c)
		printOutcome(env)
		return
	}
	n := 160
	if env.Thorough() {
		n = 3000
	}
	rng := wvlib.NewRng(env.Seed)
	cases := make([]*C06Case, n)
	for i := range cases {
		c := &C06Case{Seed: rng.Next(), Opts: wvlib.PairOpts{MaxFiles: 5, Symlinks: true, SmallOnly: i%3 != 0},
			Dmg: wvlib.DamageOpts{KindSwaps: true, SymlinkDirs: i%4 == 1, MaxOps: 3}}
		switch i % 16 {
		case 5:
			c.Shape = "valid"
		case 9:
			c.Shape = "empty"
		case 13:
			c.Shape = "missing"
		case 3, 11:
			c.Shape = "dirsymlink"
		case 7:
			c.Shape = "dirloop"
		}
		cases[i] = c
	}
	// more structural wounds than the 1024-slot wounds channel holds
	for _, mm := range [][2]int{{1100, 0}, {900, 200}, {1000, 24}} {
		for _, sh := range []string{"missing", "empty"} {
			cases = append(cases, &C06Case{Seed: rng.Next(), Opts: wvlib.PairOpts{MaxFiles: 3, Symlinks: true, SmallOnly: true}, Shape: sh, ManyDirs: mm[0], ManyLinks: mm[1]})
		}
	}
	n = len(cases)
	models := startModels(env)
	wvlib.ParallelDo(n, env.Workers, func(i int) {
		m := <-models
		defer func() { models <- m }()
		c06One(env, m, cases[i])
		if i < 3 {
			R.Sample(cases[i])
		}
	})
	stopModels(env, models)
}
