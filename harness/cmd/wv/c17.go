package main

import (
	"bytes"
	"fmt"
	"github.com/itchio/savior"
	"github.com/itchio/wharf/pwr"
	"github.com/pkg/errors"
	"io"
	"os"
	"sort"
	"strings"
	"sync"

	"github.com/itchio/lake"
	"github.com/itchio/lake/pools/fspool"
	"github.com/itchio/lake/tlc"
	"github.com/itchio/savior/seeksource"
	"github.com/itchio/wharf/pwr/bowl"
	"github.com/itchio/wharf/pwr/patcher"

	"wv/internal/wvlib"
)

func init() { runners["C17"] = runC17 }

// recBowl records which files the patcher asks the bowl to write, copy or move.
type recBowl struct {
	bowl.Bowl
	mu    sync.Mutex
	calls []string
}

func (b *recBowl) GetWriter(i int64) (bowl.EntryWriter, error) {
	b.mu.Lock()
	b.calls = append(b.calls, fmt.Sprintf("w%d", i))
	b.mu.Unlock()
	return b.Bowl.GetWriter(i)
}
func (b *recBowl) Transpose(t bowl.Transposition) error {
	b.mu.Lock()
	b.calls = append(b.calls, fmt.Sprintf("t%d<%d", t.SourceIndex, t.TargetIndex))
	b.mu.Unlock()
	return b.Bowl.Transpose(t)
}

// recPool records which old files are opened.
type recPool struct {
	lake.Pool
	mu    sync.Mutex
	reads []int64
}

func (p *recPool) note(i int64) {
	p.mu.Lock()
	p.reads = append(p.reads, i)
	p.mu.Unlock()
}
func (p *recPool) GetReader(i int64) (io.Reader, error) { p.note(i); return p.Pool.GetReader(i) }
func (p *recPool) GetReadSeeker(i int64) (io.ReadSeeker, error) {
	p.note(i)
	return p.Pool.GetReadSeeker(i)
}

type wlResult struct {
	err     error
	touched int64
	calls   []string
	reads   []int64
	out     *wvlib.Build
}

// c17SkSig, when set, makes applyWhitelist read the old build through a safekeeper opened on this signature stream.
func applyWhitelist(patch []byte, oldDir, outDir string, wl map[int64]bool) (res wlResult) {
	return applyWhitelistVia(patch, oldDir, outDir, wl, nil)
}

func applyWhitelistVia(patch []byte, oldDir, outDir string, wl map[int64]bool, skSig []byte) (res wlResult) {
	defer func() {
		if r := recover(); r != nil {
			res.err = fmt.Errorf("PANIC %v", r)
		}
	}()
	p, err := patcher.New(seeksource.FromBytes(patch), quietConsumer)
	if err != nil {
		res.err = err
		return
	}
	var inner lake.Pool = fspool.New(p.GetTargetContainer(), oldDir)
	if skSig != nil {
		inner, err = pwr.NewSafeKeeper(pwr.SafeKeeperParams{Inner: inner, Open: func() (savior.SeekSource, error) { return bytesSource(skSig), nil }})
		if err != nil {
			res.err = err
			return
		}
	}
	rp := &recPool{Pool: inner}
	fb, err := bowl.NewFreshBowl(bowl.FreshBowlParams{SourceContainer: p.GetSourceContainer(), TargetContainer: p.GetTargetContainer(), TargetPool: rp, OutputFolder: outDir})
	if err != nil {
		res.err = err
		return
	}
	rb := &recBowl{Bowl: fb}
	if wl != nil {
		p.SetSourceIndexWhitelist(wl)
	}
	res.err = p.Resume(nil, rp, rb)
	res.touched = p.GetTouchedFiles()
	res.calls, res.reads = rb.calls, rp.reads
	if res.err == nil {
		res.err = rb.Commit()
	}
	res.out, _ = wvlib.ReadTree(outDir)
	return
}

type C17Case struct {
	PairCase
	Optimized bool    `json:"optimized"`
	Whitelist []int64 `json:"whitelist"`
	All       bool    `json:"all,omitempty"` // no whitelist at all
	Synthetic string  `json:"synthetic,omitempty"`
}

func dedupReads(r []int64) string {
	// consecutive duplicates collapse (a pool may be asked several times for the same file)
	var out []string
	last := int64(-99)
	for _, x := range r {
		if x != last {
			out = append(out, fmt.Sprint(x))
		}
		last = x
	}
	return strings.Join(out, ",")
}

func c17Check(env *Env, m *wvlib.Model, c *C17Case, patch []byte, od string, newC *tlc.Container, oldC *tlc.Container, nwFiles [][]byte, base string) {
	wl := map[int64]bool{}
	for _, i := range c.Whitelist {
		wl[i] = true
	}
	out := base + "/outwl"
	defer os.RemoveAll(out)
	var wlArg map[int64]bool
	if !c.All {
		wlArg = wl
	}
	r := applyWhitelist(patch, od, out, wlArg)
	inW := func(i int64) bool { return c.All || wl[i] }
	// ---- oracle
	if r.err != nil {
		cls := "whitelist-apply-error"
		if strings.HasPrefix(r.err.Error(), "PANIC") {
			cls = "whitelist-apply-panic"
		}
		env.R.Violate(cls, r.err.Error(), c)
	} else {
		want := int64(0)
		for i := range newC.Files {
			if inW(int64(i)) {
				want++
			}
		}
		if r.touched != want {
			env.R.Violate("touched-count", fmt.Sprintf("touched=%d, whitelisted files=%d", r.touched, want), c)
		}
		if c.Seed%3 == 1 && (!env.Thorough() || c.Seed%15 == 1) {
			// the same whitelisted application stopped at EVERY checkpoint and resumed: with one patcher resumed
			// again and again its count, with a new patcher per session the sum of the counts, is the number of
			// whitelisted files; the files come out as before
			for _, same := range []bool{true, false} {
				out2 := base + "/outwl-sr"
				touched, stops, err := c17StopResumeTouched(patch, od, out2, wlArg, same)
				tag := "new-patcher-per-session"
				if same {
					tag = "one-patcher"
				}
				if err != nil {
					env.R.Violate("whitelist-resume-fails:"+tag, fmt.Sprintf("after %d stops: %v", stops, err), c)
				} else {
					if touched != want {
						env.R.Violate("touched-count:stop-resume:"+tag, fmt.Sprintf("touched=%d over %d sessions, whitelisted files=%d", touched, stops+1, want), c)
					}
					for i, f := range newC.Files {
						if !inW(int64(i)) {
							continue
						}
						if got, _ := os.ReadFile(out2 + "/" + f.Path); !bytes.Equal(got, nwFiles[i]) {
							env.R.Violate("whitelisted-file-differs-after-resume:"+tag, fmt.Sprintf("%s after %d stops", f.Path, stops), c)
							break
						}
					}
				}
				os.RemoveAll(out2)
				env.R.Count("whitelist-stop-resume:"+tag, 1)
				env.R.Count("whitelist-stop-resume:stops", int64(stops))
			}
		}
		for _, cl := range r.calls {
			var i, t int64
			if cl[0] == 'w' {
				fmt.Sscanf(cl, "w%d", &i)
			} else {
				fmt.Sscanf(cl, "t%d<%d", &i, &t)
			}
			if !inW(i) {
				env.R.Violate("bowl-asked-for-unlisted-file", cl, c)
			}
		}
		if !c.All && len(wl) == 0 && len(r.reads) > 0 {
			env.R.Violate("old-data-read-for-empty-whitelist", dedupReads(r.reads), c)
		}
		for i, f := range newC.Files {
			if !inW(int64(i)) {
				continue
			}
			got := r.out.Find(f.Path)
			if got == nil || !bytes.Equal(got.Data, nwFiles[i]) {
				env.R.Violate("whitelisted-file-differs", fmt.Sprintf("file %d (%s)", i, f.Path), c)
				break
			}
		}
	}
	// ---- the same whitelist with the old build read through the safekeeper (its verdict cache is warmed by
	// whatever was read before: a whitelist changes what that is)
	if c.Seed%2 == 0 && r.err == nil {
		if sig, _, serr := oldSigBytes(od, Comp{"none", 0}); serr == nil {
			out2 := base + "/outwl-sk"
			r2 := applyWhitelistVia(patch, od, out2, wlArg, sig)
			if r2.err != nil {
				env.R.Violate("whitelist-apply-error:safekeeper", r2.err.Error(), c)
			} else {
				for i, f := range newC.Files {
					if !inW(int64(i)) {
						continue
					}
					got := r2.out.Find(f.Path)
					if got == nil || !bytes.Equal(got.Data, nwFiles[i]) {
						env.R.Violate("whitelisted-file-differs:safekeeper", fmt.Sprintf("file %d (%s) read through the safekeeper", i, f.Path), c)
						break
					}
				}
			}
			os.RemoveAll(out2)
			env.R.Count("whitelist-through-safekeeper", 1)
		}
	}
	// ---- model
	_, _, msgs, derr := decodePatch(patch)
	if derr != nil {
		return
	}
	mf, cl := writeMsgFile(env.Scratch, msgs)
	defer cl()
	oa, c1 := filesArgs(env.Scratch, oldC, od)
	defer c1()
	wls := "*"
	if !c.All {
		var s []string
		ws := append([]int64(nil), c.Whitelist...)
		sort.Slice(ws, func(i, j int) bool { return ws[i] < ws[j] })
		for _, i := range ws {
			s = append(s, fmt.Sprint(i))
		}
		wls = strings.Join(s, ",")
		if wls == "" {
			wls = "-"
		}
	}
	ans, merr := m.Ask(fmt.Sprintf("patch %d %s %s %s %s", wvlib.BS, mf, sizesCSV(newC), wls, oa))
	impl := "err"
	if r.err == nil {
		var outs []string
		for i, f := range newC.Files {
			if inW(int64(i)) {
				if e := r.out.Find(f.Path); e != nil {
					outs = append(outs, fmt.Sprintf("%d:%d:%d", i, len(e.Data), wvlib.Fnv(e.Data)))
				}
			}
		}
		impl = fmt.Sprintf("ok touched=%d out=%s calls=%s reads=%s", r.touched, strings.Join(outs, ","), strings.Join(r.calls, ","), dedupReads(r.reads))
	} else if strings.HasPrefix(r.err.Error(), "PANIC") {
		impl = "panic"
	}
	if merr != nil {
		env.R.Disagree(c, impl, "MODEL-DIED", "n/a")
		return
	}
	mcmp := ans
	if strings.HasPrefix(mcmp, "panic") {
		mcmp = "panic"
	}
	// the model lists every read; collapse consecutive duplicates like the implementation side
	if i := strings.Index(mcmp, " reads="); i >= 0 {
		var rs []int64
		for _, t := range strings.Split(mcmp[i+7:], ",") {
			if t != "" {
				var x int64
				fmt.Sscan(t, &x)
				rs = append(rs, x)
			}
		}
		mcmp = mcmp[:i] + " reads=" + dedupReads(rs)
	}
	if mcmp != impl {
		env.R.Disagree(c, trunc(impl, 600), trunc(mcmp, 600), "see violations")
	}
}

func c17One(env *Env, m *wvlib.Model, c *C17Case) {
	if c.Synthetic != "" {
		c17Synthetic(env, m, c)
		return
	}
	old, nw := c.gen()
	base, od, nd, clean := writePair(env.Scratch, old, nw)
	defer clean()
	res, err := diffDirs(od, nd, c.Comp, nil)
	if err != nil {
		env.R.Violate("diff-error", err.Error(), c)
		return
	}
	patch := res.Patch
	if c.Optimized {
		o := optimizeReal(patch, od, nd, &C07Case{Force: true, OutComp: c.Comp, Partitions: 2}, res)
		if o.err != "" {
			env.R.Note("optimizer failed in a C17 case: %s", o.err)
			return
		}
		patch = o.patch
	}
	var nwFiles [][]byte
	for _, f := range res.New.Files {
		d, _ := os.ReadFile(nd + "/" + f.Path)
		nwFiles = append(nwFiles, d)
	}
	nf := len(res.New.Files)
	// subsets: none, all (explicit), no whitelist, singletons (a few), random
	r := wvlib.NewRng(c.Seed ^ 0x5ab5e7)
	var subsets [][]int64
	subsets = append(subsets, []int64{})
	full := make([]int64, nf)
	for i := range full {
		full[i] = int64(i)
	}
	subsets = append(subsets, full)
	if nf <= 7 && env.Thorough() {
		for mask := 1; mask < (1<<nf)-1; mask++ {
			var s []int64
			for i := 0; i < nf; i++ {
				if mask&(1<<i) != 0 {
					s = append(s, int64(i))
				}
			}
			subsets = append(subsets, s)
		}
	} else {
		for k := 0; k < 3 && nf > 0; k++ {
			subsets = append(subsets, []int64{int64(r.Intn(nf))})
		}
		for k := 0; k < 4 && nf > 1; k++ {
			var s []int64
			for i := 0; i < nf; i++ {
				if r.Bool() {
					s = append(s, int64(i))
				}
			}
			subsets = append(subsets, s)
		}
	}
	for si, s := range subsets {
		cc := *c
		cc.Whitelist = s
		c17Check(env, m, &cc, patch, od, res.New, res.Old, nwFiles, base)
		env.R.Eval(c.Seed+uint64(si)*7919, len(s) > 0 && len(s) < nf)
	}
	cc := *c
	cc.All = true
	c17Check(env, m, &cc, patch, od, res.New, res.Old, nwFiles, base)
	env.R.Count(fmt.Sprintf("optimized=%v", c.Optimized), 1)
	env.R.Count("comp:"+c.Comp.Algo, 1)
}

// c17ResumeBigSkip: whitelisted application WITH saves, stopped at every checkpoint in turn and resumed in a
// brand-new patcher with the same whitelist; between the two whitelisted patched files lies a skipped file of more
// than 16 MiB (no checkpoint is popped while files are skipped, so the first checkpoint after the skip refers to a
// source restart point far behind the reader's offset).
func c17ResumeBigSkip(env *Env, c *C17Case) {
	// whether a source checkpoint is still pending when the first series ends depends on the parity of its op
	// count: try first files of several sizes (the distribution reports how many runs had a checkpoint more than
	// 16 MiB ahead of its source restart point)
	for v := 0; v < 4; v++ {
		c17ResumeBigSkipVariant(env, c, 5+v, v+1)
	}
}

func c17ResumeBigSkipVariant(env *Env, c *C17Case, aBlocks, nEdits int) {
	base := env.Scratch.Sub("wlr")
	defer os.RemoveAll(base)
	r := wvlib.NewRng(c.Seed + uint64(aBlocks))
	aOld, cOld := r.Bytes(aBlocks*wvlib.BS+100), r.Bytes(4*wvlib.BS+7)
	edit := func(d []byte) []byte {
		// overwrites inside blocks 1, 3, ...: the blocks in between are kept (several ops per series)
		e := append([]byte(nil), d...)
		for k := 0; k < nEdits && (2*k+2)*wvlib.BS <= len(e); k++ {
			copy(e[(2*k+1)*wvlib.BS+5:], r.Bytes(100))
		}
		return e
	}
	old := &wvlib.Build{Entries: []wvlib.BEntry{{Path: "a_small.bin", Kind: 'f', Data: aOld}, {Path: "c_last.bin", Kind: 'f', Data: cOld}}}
	nw := &wvlib.Build{Entries: []wvlib.BEntry{{Path: "a_small.bin", Kind: 'f', Data: edit(aOld)}, {Path: "b_big.bin", Kind: 'f', Data: r.Bytes(17<<20 + 333)}, {Path: "c_last.bin", Kind: 'f', Data: edit(cOld)}}}
	od, nd := base+"/old", base+"/new"
	old.Write(od)
	nw.Write(nd)
	for _, comp := range []Comp{{"none", 0}, {"brotli", 1}} {
		res, err := diffDirs(od, nd, comp, nil)
		if err != nil {
			env.R.Violate("diff-error", err.Error(), c)
			return
		}
		wl := map[int64]bool{0: true, 2: true}
		run := func(out string, ck *patcher.Checkpoint, sv *recSaver) error {
			p, err := patcher.New(seeksource.FromBytes(res.Patch), quietConsumer)
			if err != nil {
				return err
			}
			p.SetSaveConsumer(sv)
			p.SetSourceIndexWhitelist(wl)
			pool := fspool.New(p.GetTargetContainer(), od)
			fb, err := bowl.NewFreshBowl(bowl.FreshBowlParams{SourceContainer: p.GetSourceContainer(), TargetContainer: p.GetTargetContainer(), TargetPool: pool, OutputFolder: out})
			if err != nil {
				return err
			}
			if err := p.Resume(ck, pool, fb); err != nil {
				return err
			}
			return fb.Commit()
		}
		sv0 := &recSaver{stopAt: -1, every: 1}
		if err := run(base+"/ref", nil, sv0); err != nil {
			env.R.Violate("whitelist-apply-error", "with saves: "+err.Error(), c)
			return
		}
		env.R.Count("whitelist-resume:checkpoints:"+comp.Algo, int64(len(sv0.saved)))
		for _, b := range sv0.saved {
			if ck, err := decodeCheckpoint(b); err == nil && ck.MessageCheckpoint != nil && ck.MessageCheckpoint.SourceCheckpoint != nil {
				if d := ck.MessageCheckpoint.Offset - ck.MessageCheckpoint.SourceCheckpoint.Offset; d > 16<<20 {
					env.R.Count("whitelist-resume:checkpoint-more-than-16MiB-ahead-of-its-source-restart-point:"+comp.Algo, 1)
				}
				if os.Getenv("WV_DEBUG") != "" {
					fmt.Printf("ck file=%d off=%d src=%d\n", ck.FileIndex, ck.MessageCheckpoint.Offset, ck.MessageCheckpoint.SourceCheckpoint.Offset)
				}
			}
		}
		for k := range sv0.saved {
			out := fmt.Sprintf("%s/out%d", base, k)
			sv1 := &recSaver{stopAt: k, every: 1}
			err := run(out, nil, sv1)
			if err == nil || k >= len(sv1.saved) {
				os.RemoveAll(out)
				continue
			}
			ck, derr := decodeCheckpoint(sv1.saved[k])
			if derr != nil {
				continue
			}
			if err := run(out, ck, &recSaver{stopAt: -1, every: 1}); err != nil {
				env.R.Violate("whitelist-resume-fails:"+comp.Algo, fmt.Sprintf("stopped at checkpoint %d of %d, resumed with the same whitelist: %v", k, len(sv0.saved), err), c)
				os.RemoveAll(out)
				return
			}
			for _, name := range []string{"a_small.bin", "c_last.bin"} {
				got, _ := os.ReadFile(out + "/" + name)
				if !bytes.Equal(got, nw.Find(name).Data) {
					env.R.Violate("whitelisted-file-differs-after-resume:"+comp.Algo, fmt.Sprintf("%s after stopping at checkpoint %d and resuming: %d bytes, first difference at %d", name, k, len(got), firstDiffBytes(got, nw.Find(name).Data)), c)
					os.RemoveAll(out)
					return
				}
			}
			env.R.Count("whitelist-resume:resumed-ok", 1)
			os.RemoveAll(out)
		}
		os.RemoveAll(base + "/ref")
	}
	env.R.Eval(c.Seed^0x77^uint64(aBlocks), true)
}

// c17SafekeeperRotated: every whitelist of an OPTIMIZED patch whose second file is the first one rotated by an odd
// multiple of 32 KiB (its bsdiff series enters blocks of the old file in their second half), applied through the
// safekeeper: whether a block's verdict is already cached when the series gets there depends on the whitelist.
func c17SafekeeperRotated(env *Env, c *C17Case) {
	base := env.Scratch.Sub("skr")
	defer os.RemoveAll(base)
	r := wvlib.NewRng(c.Seed)
	a := r.Bytes(4 * wvlib.BS)
	rot := (1 + 2*r.Intn(3)) * wvlib.BS / 2
	a2 := append([]byte(nil), a...)
	a2[100] ^= 1
	a2[3*wvlib.BS+7] ^= 1
	b := append(append([]byte(nil), a[rot:]...), a[:rot]...)
	old := &wvlib.Build{Entries: []wvlib.BEntry{{Path: "a.bin", Kind: 'f', Data: a}}}
	nw := &wvlib.Build{Entries: []wvlib.BEntry{{Path: "a.bin", Kind: 'f', Data: a2}, {Path: "b.bin", Kind: 'f', Data: b}, {Path: "e.txt", Kind: 'f'}}}
	od, nd := base+"/old", base+"/new"
	old.Write(od)
	nw.Write(nd)
	res, err := diffDirs(od, nd, Comp{"none", 0}, nil)
	if err != nil {
		return
	}
	o := optimizeReal(res.Patch, od, nd, &C07Case{Force: true, OutComp: Comp{"none", 0}, Partitions: 2}, res)
	if o.err != "" {
		return
	}
	sig, _, serr := oldSigBytes(od, Comp{"none", 0})
	if serr != nil {
		return
	}
	for _, patch := range [][]byte{res.Patch, o.patch} {
		for mask := 0; mask < 8; mask++ {
			wl := map[int64]bool{}
			for i := 0; i < 3; i++ {
				if mask&(1<<i) != 0 {
					wl[int64(i)] = true
				}
			}
			out := fmt.Sprintf("%s/out%d", base, mask)
			r2 := applyWhitelistVia(patch, od, out, wl, sig)
			if r2.err != nil {
				env.R.Violate("whitelist-apply-error:safekeeper", fmt.Sprintf("whitelist %v: %v", wl, r2.err), c)
			} else {
				for i, e := range nw.Files() {
					if !wl[int64(i)] {
						continue
					}
					if got := r2.out.Find(e.Path); got == nil || !bytes.Equal(got.Data, e.Data) {
						env.R.Violate("whitelisted-file-differs:safekeeper", fmt.Sprintf("whitelist mask %03b, rotation %d: %s differs from the new build", mask, rot, e.Path), c)
						break
					}
				}
			}
			os.RemoveAll(out)
			env.R.Count("safekeeper-rotated-subsets", 1)
		}
	}
	env.R.Eval(c.Seed^0x5c, true)
}

// c17Synthetic: a skipped bsdiff series whose target is old file #2049 (needs >= 2050 old files).
func c17Synthetic(env *Env, m *wvlib.Model, c *C17Case) {
	if c.Synthetic == "safekeeper-rotated" {
		c17SafekeeperRotated(env, c)
		return
	}
	if c.Synthetic == "whitelist-resume-big-skip" {
		c17ResumeBigSkip(env, c)
		return
	}
	base := env.Scratch.Sub("syn")
	defer os.RemoveAll(base)
	old := &wvlib.Build{}
	for i := 0; i < 2052; i++ {
		old.Entries = append(old.Entries, wvlib.BEntry{Path: fmt.Sprintf("f%04d", i), Kind: 'f', Data: []byte{byte(i), byte(i >> 8), 7}})
	}
	nw := &wvlib.Build{Entries: []wvlib.BEntry{
		{Path: "a.bin", Kind: 'f', Data: []byte{9, 9, 9, 1}},
		{Path: "b.bin", Kind: 'f', Data: []byte("hello")},
	}}
	od, nd := base+"/old", base+"/new"
	old.Write(od)
	nw.Write(nd)
	oldC, _ := tlc.WalkAny(od, tlc.WalkOpts{})
	newC, _ := tlc.WalkAny(nd, tlc.WalkOpts{})
	target := int64(2049)
	tdata, _ := os.ReadFile(od + "/" + oldC.Files[target].Path)
	ndata := nw.Entries[0].Data
	add := make([]byte, 3)
	for i := range add {
		add[i] = ndata[i] - tdata[i]
	}
	msgs := []PMsg{
		{Kind: "H", A: 1, B: 0}, {Kind: "B", A: target},
		{Kind: "C", Data: add, Data2: ndata[3:], A: 0}, {Kind: "C", Eof: true},
		{Kind: "O", A: 2049},
		{Kind: "H", A: 0, B: 1}, {Kind: "O", A: 1, Data: []byte("hello")}, {Kind: "O", A: 2049},
	}
	patch, err := encodePatch(oldC, newC, msgs, Comp{"none", 0})
	if err != nil {
		env.R.Note("synthetic patch: %v", err)
		return
	}
	nwFiles := [][]byte{ndata, []byte("hello")}
	for _, wl := range [][]int64{{1}, {0}, {0, 1}, {}} {
		cc := *c
		cc.Whitelist = wl
		c17Check(env, m, &cc, patch, od, newC, oldC, nwFiles, base)
		env.R.Eval(c.Seed+uint64(len(wl))*31+uint64(len(wl)), true)
	}
	env.R.Count("synthetic:bsdiff-target-2049", 1)
}

func runC17(env *Env) {
	R := env.R
	R.Rule = "build pairs x {plain, optimized with ForceMapAll} x compression x whitelists (empty, full, none, singletons, random; every subset for <= 7 files in thorough) + the synthetic 2052-old-file patch whose skipped bsdiff series targets old file #2049; distinct by (seed, subset); non-trivial = proper non-empty subset"
	if env.Replay != "" {
		var c C17Case
		replayCase(env, &c)
		m, _ := wvlib.StartModel()
		defer m.Close()
		if c.Synthetic != "" {
			c17Synthetic(env, m, &c)
		} else {
			old, nw := c.gen()
			base, od, nd, clean := writePair(env.Scratch, old, nw)
			defer clean()
			res, err := diffDirs(od, nd, c.Comp, nil)
			if err == nil {
				patch := res.Patch
				if c.Optimized {
					patch = optimizeReal(patch, od, nd, &C07Case{Force: true, OutComp: c.Comp, Partitions: 2}, res).patch
				}
				var nwFiles [][]byte
				for _, f := range res.New.Files {
					d, _ := os.ReadFile(nd + "/" + f.Path)
					nwFiles = append(nwFiles, d)
				}
				c17Check(env, m, &c, patch, od, res.New, res.Old, nwFiles, base)
			}
			_ = nw
		}
		printOutcome(env)
		return
	}
	n := 60
	if env.Thorough() {
		n = 600
	}
	rng := wvlib.NewRng(env.Seed)
	cases := []*C17Case{{Synthetic: "bsdiff-target-2049", PairCase: PairCase{Seed: 1}}, {Synthetic: "whitelist-resume-big-skip", PairCase: PairCase{Seed: rng.Next()}}, {Synthetic: "safekeeper-rotated", PairCase: PairCase{Seed: rng.Next()}}, {Synthetic: "safekeeper-rotated", PairCase: PairCase{Seed: rng.Next()}}}
	comps := []Comp{{"none", 0}, {"gzip", 1}, {"brotli", 1}}
	for i := 0; i < n; i++ {
		cases = append(cases, &C17Case{PairCase: PairCase{Seed: rng.Next(), Opts: wvlib.PairOpts{MaxFiles: 5, SmallOnly: true, Symlinks: true, Triple: i%6 == 0}, Comp: comps[i%3]}, Optimized: i%2 == 1})
	}
	models := startModels(env)
	wvlib.ParallelDo(len(cases), env.Workers, func(i int) {
		m := <-models
		defer func() { models <- m }()
		c17One(env, m, cases[i])
		if i < 3 {
			R.Sample(cases[i])
		}
	})
	stopModels(env, models)
}

// c17StopResumeTouched applies the patch with the whitelist in sessions that stop at every checkpoint offered, every
// session with a new fresh bowl and pool and either the same patcher (samePatcher) or a new one; returns the touched
// count (of the one patcher, or summed over the patchers) and the number of stops.
func c17StopResumeTouched(patch []byte, oldDir, outDir string, wl map[int64]bool, samePatcher bool) (touched int64, stops int, err error) {
	defer func() {
		if r := recover(); r != nil {
			err = fmt.Errorf("PANIC %v", r)
		}
	}()
	var p patcher.Patcher
	var ck *patcher.Checkpoint
	for {
		if p == nil || !samePatcher {
			if p != nil {
				touched += p.GetTouchedFiles()
			}
			if p, err = patcher.New(seeksource.FromBytes(patch), quietConsumer); err != nil {
				return touched, stops, err
			}
			if wl != nil {
				p.SetSourceIndexWhitelist(wl)
			}
		}
		sv := &recSaver{stopAt: 0, every: 1}
		p.SetSaveConsumer(sv)
		pool := fspool.New(p.GetTargetContainer(), oldDir)
		b, berr := bowl.NewFreshBowl(bowl.FreshBowlParams{SourceContainer: p.GetSourceContainer(), TargetContainer: p.GetTargetContainer(), TargetPool: pool, OutputFolder: outDir})
		if berr != nil {
			return touched, stops, berr
		}
		rerr := p.Resume(ck, pool, b)
		if rerr == nil {
			if err = b.Commit(); err != nil {
				return touched, stops, err
			}
			return touched + p.GetTouchedFiles(), stops, b.Close()
		}
		b.Close()
		if errors.Cause(rerr) != patcher.ErrStop || len(sv.saved) == 0 {
			return touched, stops, rerr
		}
		stops++
		if stops > 100000 {
			return touched, stops, fmt.Errorf("no progress")
		}
		if ck, err = decodeCheckpoint(sv.saved[len(sv.saved)-1]); err != nil {
			return touched, stops, err
		}
	}
}
