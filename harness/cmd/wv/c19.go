package main

import (
	"bytes"
	"fmt"
	"github.com/itchio/lake/pools/fspool"
	"github.com/itchio/lake/tlc"
	"github.com/itchio/wharf/archiver/containerarchiver"
	"os"
	"os/exec"
	"strings"
	"sync"
	"time"

	"github.com/itchio/headway/state"
	"github.com/itchio/wharf/archiver"

	"wv/internal/wvlib"
)

func init() { runners["C19"] = runC19 }

type C19Case struct {
	Seed      uint64 `json:"seed"`
	Shape     string `json:"shape"` // mixed | manysmall | bigfirst
	Format    string `json:"format"`
	Workers   int    `json:"workers"`
	Interrupt int    `json:"interrupt"` // -1: none; k: crash snapshot at the k-th completed entry
	Repeat    int    `json:"repeat,omitempty"`
}

func c19Tree(c *C19Case) *wvlib.Build {
	r := wvlib.NewRng(c.Seed)
	b := &wvlib.Build{}
	add := func(e wvlib.BEntry) { b.Entries = append(b.Entries, e) }
	switch c.Shape {
	case "manysmall":
		n := 100 + r.Intn(300)
		for i := 0; i < n; i++ {
			add(wvlib.BEntry{Path: fmt.Sprintf("d%d/s%03d.bin", i%7, i), Kind: 'f', Data: r.Bytes(r.Intn(200))})
		}
	case "bigfirst":
		// an early large entry and many small ones after it: workers finish out of order
		add(wvlib.BEntry{Path: "a-big.bin", Kind: 'f', Data: r.Bytes(24*1024*1024 + r.Intn(1000))})
		for i := 0; i < 30+r.Intn(30); i++ {
			add(wvlib.BEntry{Path: fmt.Sprintf("z/s%03d.bin", i), Kind: 'f', Data: r.Bytes(r.Intn(100))})
		}
	default:
		nb := wvlib.GenBuild(r, wvlib.PairOpts{MaxFiles: 8, Symlinks: true, SmallOnly: true})
		b = nb
		add(wvlib.BEntry{Path: "e1/e2/e3", Kind: 'd'})
		add(wvlib.BEntry{Path: "abs-link", Kind: 'l', Dest: "/abs/olute"})
		add(wvlib.BEntry{Path: "top/dir-link", Kind: 'l', Dest: "mid"})
		add(wvlib.BEntry{Path: "empty.bin", Kind: 'f'})
		// files shorter than any magic number or header a copy routine might sniff
		add(wvlib.BEntry{Path: "VERSION", Kind: 'f', Data: []byte("7\n")})
		add(wvlib.BEntry{Path: "steam_appid.txt", Kind: 'f', Data: []byte("480")})
		add(wvlib.BEntry{Path: "one-byte", Kind: 'f', Data: r.Bytes(1)})
		add(wvlib.BEntry{Path: "four-bytes-png", Kind: 'f', Data: []byte("\x89PNG")})
		add(wvlib.BEntry{Path: "looks-like.gz", Kind: 'f', Data: append([]byte{0x1f, 0x8b, 8, 0}, r.Bytes(50)...)})
		add(wvlib.BEntry{Path: "looks-like.zip", Kind: 'f', Data: append([]byte("PK\x03\x04"), r.Bytes(90)...)})
		// names a path filter may misjudge: components that merely START with dots (a ConfigMap-volume layout among them)
		add(wvlib.BEntry{Path: "..2026_09_26/config.yaml", Kind: 'f', Data: r.Bytes(40)})
		add(wvlib.BEntry{Path: "..data", Kind: 'l', Dest: "..2026_09_26"})
		add(wvlib.BEntry{Path: "config.yaml", Kind: 'l', Dest: "..data/config.yaml"})
		add(wvlib.BEntry{Path: "...", Kind: 'f', Data: r.Bytes(3)})
		add(wvlib.BEntry{Path: "..gitkeep", Kind: 'f'})
		add(wvlib.BEntry{Path: "top/..cache/x", Kind: 'f', Data: r.Bytes(5)})
		add(wvlib.BEntry{Path: ".hidden", Kind: 'f', Data: r.Bytes(1)})
		add(wvlib.BEntry{Path: "v1..2", Kind: 'd'})
		// names that are legal on this filesystem and awkward elsewhere
		for i, nm := range []string{"with space.txt", "ünï/cödé/файл.bin", "back\\slash.bin", "-leading-dash", "trailing.dot.", "co:lon", "tab\tname", "q?*<>|.bin", "semi;colon&amp", "percent%41", "a/very/deep/" + strings.Repeat("d/", 12) + "leaf", strings.Repeat("long", 50)} {
			add(wvlib.BEntry{Path: "odd/" + nm, Kind: 'f', Data: r.Bytes(1 + i)})
		}
		add(wvlib.BEntry{Path: "odd/link with space", Kind: 'l', Dest: "with space.txt"})
		add(wvlib.BEntry{Path: "odd/empty dir ü", Kind: 'd'})
		// contents a copy loop may treat specially: runs of zero bytes (sparse / pre-allocated files) at the start,
		// in the middle and at the END of files whose sizes are and are not multiples of the usual buffer sizes
		const K = 32 * 1024
		zeros := func(n int) []byte { return make([]byte, n) }
		cat := func(parts ...[]byte) []byte { return bytes.Join(parts, nil) }
		add(wvlib.BEntry{Path: "zeros/all-64k.bin", Kind: 'f', Data: zeros(2 * K)})
		add(wvlib.BEntry{Path: "zeros/tail-96k.bin", Kind: 'f', Data: cat(r.Bytes(K), zeros(2*K))})
		add(wvlib.BEntry{Path: "zeros/tail-odd.bin", Kind: 'f', Data: cat(r.Bytes(K+5), zeros(K+r.Intn(K)))})
		add(wvlib.BEntry{Path: "zeros/mid.bin", Kind: 'f', Data: cat(r.Bytes(K), zeros(K), r.Bytes(K))})
		add(wvlib.BEntry{Path: "zeros/head.bin", Kind: 'f', Data: cat(zeros(K), r.Bytes(100))})
		add(wvlib.BEntry{Path: "zeros/small.bin", Kind: 'f', Data: zeros(1 + r.Intn(4096))})
		add(wvlib.BEntry{Path: "zeros/exact-" + fmt.Sprint(r.Pick(4096, 8192, 16384, 65536, 131072)) + ".bin", Kind: 'f', Data: zeros(r.Pick(4096, 8192, 16384, 65536, 131072))})
	}
	b.Normalize()
	// drop duplicates introduced by the extras
	seen := map[string]bool{}
	var es []wvlib.BEntry
	for _, e := range b.Entries {
		if !seen[e.Path] {
			seen[e.Path] = true
			es = append(es, e)
		}
	}
	b.Entries = es
	return b
}

func countKinds(b *wvlib.Build) (d, f, l int) {
	for _, e := range b.Entries {
		switch e.Kind {
		case 'd':
			d++
		case 'f':
			f++
		case 'l':
			l++
		}
	}
	return
}

// extractZipWatched: ExtractZip with a watchdog (a pool without workers never returns).
func extractZipWatched(zb []byte, out string, st archiver.ExtractSettings) (*archiver.ExtractResult, error) {
	type ret struct {
		res *archiver.ExtractResult
		err error
	}
	ch := make(chan ret, 1)
	go func() {
		defer func() {
			if r := recover(); r != nil {
				ch <- ret{nil, fmt.Errorf("PANIC %v", r)}
			}
		}()
		res, err := archiver.ExtractZip(bytes.NewReader(zb), int64(len(zb)), out, st)
		ch <- ret{res, err}
	}()
	select {
	case r := <-ch:
		return r.res, r.err
	case <-time.After(wvlib.Watchdog(120 * time.Second)):
		return nil, fmt.Errorf("HANG: ExtractZip did not return within the watchdog time")
	}
}

func copyTree(src, dst string) error {
	out, err := exec.Command("cp", "-a", src, dst).CombinedOutput()
	if err != nil && os.Getenv("WV_DEBUG_CP") != "" {
		fmt.Fprintf(os.Stderr, "cp -a failed: %v: %s\n", err, trunc(string(out), 300))
	}
	return err
}

func c19One(env *Env, m *wvlib.Model, c *C19Case) {
	tree := c19Tree(c)
	base := env.Scratch.Sub("c19")
	defer os.RemoveAll(base)
	src := base + "/src"
	if err := tree.Write(src); err != nil {
		env.R.Note("write tree: %v", err)
		return
	}
	cons := &state.Consumer{}
	wd, wf, wl := countKinds(tree)
	if c.Format == "tar" {
		var buf bytes.Buffer
		if _, err := archiver.CompressTar(&buf, src, cons); err != nil {
			env.R.Violate("compress-error:tar", err.Error(), c)
			return
		}
		ap := base + "/a.tar"
		os.WriteFile(ap, buf.Bytes(), 0o644)
		out := base + "/out"
		res, err := archiver.ExtractTar(ap, out, archiver.ExtractSettings{Consumer: cons})
		if err != nil {
			env.R.Violate("extract-error:tar", err.Error(), c)
			return
		}
		got, _ := wvlib.ReadTree(out)
		if d := wvlib.DiffTrees(got, tree); d != "" {
			env.R.Violate("tree-differs:tar", d, c)
		}
		if res.Dirs != wd || res.Files != wf || res.Symlinks != wl {
			env.R.Violate("counts-wrong:tar", fmt.Sprintf("reported %d/%d/%d dirs/files/symlinks, extracted %d/%d/%d", res.Dirs, res.Files, res.Symlinks, wd, wf, wl), c)
		}
		env.R.Eval(c.Seed^7, true)
		env.R.Count("format:tar", 1)
		return
	}
	var buf bytes.Buffer
	if c.Format == "czip" {
		// the container-based zip writer (archiver/containerarchiver): walk the tree into a tlc.Container, read it
		// through an fspool
		container, werr := tlc.WalkAny(src, tlc.WalkOpts{})
		if werr != nil {
			env.R.Note("walk: %v", werr)
			return
		}
		cres, err := containerarchiver.CompressZip(&buf, container, fspool.New(container, src), cons)
		if err != nil {
			env.R.Violate("compress-error:czip", err.Error(), c)
			return
		}
		if cres != nil && cres.UncompressedSize != container.Size {
			env.R.Violate("compress-size-wrong:czip", fmt.Sprintf("CompressResult.UncompressedSize=%d, the container holds %d bytes", cres.UncompressedSize, container.Size), c)
		}
	} else if _, err := archiver.CompressZip(&buf, src, cons); err != nil {
		env.R.Violate("compress-error:zip", err.Error(), c)
		return
	}
	zb := buf.Bytes()
	if c.Interrupt < 0 && c.Seed%3 == 0 {
		// the entry point that takes the archive's PATH (opens it itself, closes it itself)
		ap, outp := base+"/a.zip", base+"/out-path"
		os.WriteFile(ap, zb, 0o644)
		res, err := func() (res *archiver.ExtractResult, err error) {
			defer func() {
				if r := recover(); r != nil {
					err = fmt.Errorf("PANIC %v", r)
				}
			}()
			return archiver.ExtractPath(ap, outp, archiver.ExtractSettings{Consumer: cons, Concurrency: c.Workers})
		}()
		if err != nil {
			env.R.Violate("extract-error:zip:ExtractPath", err.Error(), c)
		} else {
			got, _ := wvlib.ReadTree(outp)
			if d := wvlib.DiffTrees(got, tree); d != "" {
				env.R.Violate("tree-differs:zip:ExtractPath", d, c)
			}
			if res.Dirs != wd || res.Files != wf || res.Symlinks != wl {
				env.R.Violate("counts-wrong:zip:ExtractPath", fmt.Sprintf("reported %d/%d/%d, extracted %d/%d/%d", res.Dirs, res.Files, res.Symlinks, wd, wf, wl), c)
			}
		}
		os.RemoveAll(outp)
		env.R.Count("extracted-through-ExtractPath", 1)
	}
	reps := c.Repeat
	if reps < 1 {
		reps = 1
	}
	for rep := 0; rep < reps; rep++ {
		out := fmt.Sprintf("%s/out%d", base, rep)
		resume := fmt.Sprintf("%s/resume%d", base, rep)
		snapDir := fmt.Sprintf("%s/snap%d", base, rep)
		var mu sync.Mutex
		done := 0
		snapped := false
		snapFailed := false
		st := archiver.ExtractSettings{Consumer: cons, Concurrency: c.Workers}
		if c.Interrupt >= 0 {
			st.ResumeFrom = resume
			st.OnEntryDone = func(string) {
				mu.Lock()
				defer mu.Unlock()
				done++
				if done == c.Interrupt+1 && !snapped {
					snapped = true
					// the state a crash would leave behind: the resume file first (every entry it
					// vouches for is complete and stays so), then the directory, which other workers
					// keep writing to while it is copied (partially written later entries included)
					var e1 error
					if _, serr := os.Stat(resume); serr == nil {
						e1 = exec.Command("cp", resume, snapDir+".resume").Run()
					} // else: no entry vouched for yet (a big first entry still in progress): a crash state without a resume file
					e2 := copyTree(out, snapDir)
					if e1 != nil || e2 != nil {
						// the copy itself failed (cp skips what it cannot open and exits non-zero, e.g. when the
						// machine runs out of file handles under load): what it left is not a state a crash of the
						// extraction can leave, so there is nothing to restart from
						snapFailed = true
					}
				}
			}
		}
		var sizeKnown int64 = -1
		if c.Seed%2 == 0 {
			st.OnUncompressedSizeKnown = func(n int64) { sizeKnown = n }
		}
		res, err := extractZipWatched(zb, out, st)
		if err != nil {
			cls := "extract-error:zip"
			if strings.HasPrefix(err.Error(), "HANG") {
				cls = "extract-does-not-return:zip"
				wvlib.NoteHang()
			}
			env.R.Violate(cls, fmt.Sprintf("workers=%d: %v", c.Workers, err), c)
			return
		}
		if st.OnUncompressedSizeKnown != nil {
			var want int64
			for _, e := range tree.Entries {
				if e.Kind == 'f' {
					want += int64(len(e.Data))
				}
			}
			if sizeKnown < want {
				env.R.Violate("uncompressed-size-wrong:zip", fmt.Sprintf("announced %d bytes, the files alone have %d", sizeKnown, want), c)
			}
		}
		got, _ := wvlib.ReadTree(out)
		if d := wvlib.DiffTrees(got, tree); d != "" {
			env.R.Violate("tree-differs:zip", fmt.Sprintf("workers=%d: %s", c.Workers, d), c)
		}
		if res.Dirs != wd || res.Files != wf || res.Symlinks != wl {
			cls := "counts-wrong:zip"
			if c.Workers != 1 {
				cls = "counts-wrong:zip:multi-worker"
			}
			env.R.Violate(cls, fmt.Sprintf("workers=%d: reported %d/%d/%d dirs/files/symlinks, extracted %d/%d/%d", c.Workers, res.Dirs, res.Files, res.Symlinks, wd, wf, wl), c)
		}
		if snapped && snapFailed {
			env.R.Count("snapshot-copy-failed", 1)
		}
		if snapped && !snapFailed {
			// restart from the crash state with the same resume file
			resumeAt, _ := os.ReadFile(snapDir + ".resume")
			st2 := archiver.ExtractSettings{Consumer: cons, Concurrency: c.Workers, ResumeFrom: snapDir + ".resume"}
			if _, err := os.Stat(snapDir); err != nil {
				os.MkdirAll(snapDir, 0o755)
			}
			_, err := extractZipWatched(zb, snapDir, st2)
			if err != nil {
				env.R.Violate("restart-error:zip", err.Error(), c)
			} else {
				got2, _ := wvlib.ReadTree(snapDir)
				if got2.ReadErr != "" {
					// the harness could not list the directory (after retries): nothing can be said
					env.R.Count("tree-listing-failed", 1)
					env.R.Note("listing %s failed: %s", snapDir, got2.ReadErr)
				} else if d := wvlib.DiffTrees(got2, tree); d != "" {
					cls := "restart-incomplete:zip"
					if c.Workers != 1 {
						cls = "restart-incomplete:zip:multi-worker"
					}
					env.R.Violate(cls, fmt.Sprintf("workers=%d interrupt after entry %d, resume file of the crash state says %q, %d of %d entries differ: %s", c.Workers, c.Interrupt, string(resumeAt), strings.Count(d, ";")+1, len(tree.Entries), d), c)
				}
			}
			env.R.Count("restarts", 1)
		}
		os.RemoveAll(out)
		os.RemoveAll(snapDir)
	}
	// model: sequential extraction of the archive's entries over the abstract filesystem gives the tree
	lst := base + "/tree.lst"
	writeDiskListing(lst, tree)
	ans, err := m.Ask("extract " + lst)
	if err != nil || ans != "same" {
		env.R.Disagree(c, "tree as extracted by the implementation = source tree", trunc(ans, 400), "n/a")
	}
	env.R.Eval(c.Seed^uint64(c.Workers+3)<<8^uint64(c.Interrupt+2)<<16, c.Workers != 1 || c.Interrupt >= 0)
	env.R.Count(fmt.Sprintf("workers=%d", c.Workers), 1)
	env.R.Count("shape:"+c.Shape, 1)
	_ = strings.Join
}

func runC19(env *Env) {
	R := env.R
	R.Rule = "directory trees (nested and empty dirs, empty files, dangling/absolute/dir symlinks, many small files, one early large file) x {tar, zip} x workers 1..16 and -1 x interruption after every k-th entry (crash snapshot of directory + resume file, restart); distinct by (seed, workers, interrupt); non-trivial = more than one worker or an interruption"
	if env.Replay != "" {
		var c C19Case
		replayCase(env, &c)
		m, _ := wvlib.StartModel()
		defer m.Close()
		c19One(env, m, &c)
		printOutcome(env)
		return
	}
	rng := wvlib.NewRng(env.Seed)
	var cases []*C19Case
	nTrees := 6
	if env.Thorough() {
		nTrees = 60
	}
	workers := []int{0, 1, 2, 3, 16, -1}
	if env.Thorough() {
		workers = []int{0, 1, 2, 3, 4, 5, 8, 11, 16, -1}
	}
	for t := 0; t < nTrees; t++ {
		seed := rng.Next()
		shape := []string{"mixed", "manysmall", "mixed", "bigfirst"}[t%4]
		cases = append(cases, &C19Case{Seed: seed, Shape: shape, Format: "tar", Interrupt: -1})
		cases = append(cases, &C19Case{Seed: seed, Shape: shape, Format: "czip", Workers: []int{1, 3, -1}[t%3], Interrupt: -1})
		for _, w := range workers {
			cases = append(cases, &C19Case{Seed: seed, Shape: shape, Format: "zip", Workers: w, Interrupt: -1, Repeat: 2})
			nInt := 4
			if env.Thorough() {
				nInt = 12
			}
			for k := 0; k < nInt; k++ {
				cases = append(cases, &C19Case{Seed: seed, Shape: shape, Format: "zip", Workers: w, Interrupt: rng.Intn(40)})
			}
		}
	}
	models := startModels(env)
	// big trees: limit parallelism to keep the disk quiet
	par := env.Workers
	if par > 8 {
		par = 8
	}
	wvlib.ParallelDo(len(cases), par, func(i int) {
		m := <-models
		defer func() { models <- m }()
		c19One(env, m, cases[i])
		if i < 3 {
			R.Sample(cases[i])
		}
	})
	stopModels(env, models)
}
