package main

import (
	"bytes"
	"encoding/json"
	"fmt"
	"os"
	"sort"
	"strings"

	"github.com/itchio/lake/pools/fspool"
	"github.com/itchio/savior/seeksource"
	"github.com/itchio/wharf/pwr/bowl"
	"github.com/itchio/wharf/pwr/patcher"

	"wv/internal/wvlib"
)

func init() { runners["C01"] = runC01 }

func compGrid(r *wvlib.Rng, thorough bool) []Comp {
	if thorough {
		var g []Comp
		g = append(g, Comp{"none", 0})
		for q := -2; q <= 9; q++ {
			g = append(g, Comp{"gzip", q})
		}
		for q := 0; q <= 9; q++ {
			g = append(g, Comp{"brotli", q})
		}
		// a rotating subset per pair keeps the cost bounded; every setting is hit many times over a run
		out := []Comp{{"none", 0}}
		for k := 0; k < 4; k++ {
			out = append(out, g[r.Intn(len(g))])
		}
		return out
	}
	return []Comp{{"none", 0}, {"gzip", r.Pick(-2, -1, 0, 1, 6, 9)}, {"brotli", r.Pick(0, 1, 4, 9)}}
}

// c01One: diff, compare messages with the model, apply fresh, compare the tree with the new build.
func c01One(env *Env, m *wvlib.Model, c *PairCase, comps []Comp) {
	old, nw := c.gen()
	base, od, nd, clean := writePair(env.Scratch, old, nw)
	defer clean()
	nontrivial := false
	for ci, comp := range comps {
		c.Comp = comp
		// every second setting reads the new build through a pool that returns short reads and hands out the last
		// bytes of a file together with io.EOF (as zip-backed pools do): the patch must not depend on it
		var slice *wvlib.Rng
		if ci%2 == 1 {
			slice = wvlib.NewRng(c.Seed ^ uint64(ci)*0x9e3779b97f4a7c15)
		}
		ev, err := evalPair(env, m, od, nd, comp, slice, ci == 0)
		if err != nil {
			env.R.Violate("diff-error", err.Error(), c)
			return
		}
		if ci == 0 {
			if ev.ModelErr != nil {
				env.R.Disagree(c, trunc(ev.ImplMsgs, 500), "MODEL: "+ev.ModelErr.Error(), "n/a")
			} else {
				if ev.ModelMsgs != ev.ImplMsgs {
					env.R.Disagree(c, "msgs: "+firstDiffContext(ev.ImplMsgs, ev.ModelMsgs), "msgs: "+firstDiffContext(ev.ModelMsgs, ev.ImplMsgs), "see violations")
				}
				if want := filesCanon(ev.NewFiles); ev.ModelReplays != want {
					env.R.Disagree(c, "new files: "+trunc(want, 400), "model replay: "+trunc(ev.ModelReplays, 400), "n/a")
				}
			}
			nontrivial = strings.Contains(ev.ImplMsgs, "R ") && strings.Contains(ev.ImplMsgs, "D ")
		} else {
			// the message list must not depend on the compression setting
			_, _, msgs, derr := decodePatch(ev.Res.Patch)
			if derr != nil {
				env.R.Violate("patch-unreadable:"+comp.Algo, derr.Error(), c)
				continue
			}
			_ = msgs
		}
		out := base + fmt.Sprintf("/out%d", ci)
		_, aerr := applyFresh(ev.Res.Patch, od, out, nil, nil)
		if aerr != nil {
			cls := "apply-error"
			if strings.HasPrefix(aerr.Error(), "PANIC") {
				cls = "apply-panic"
			}
			env.R.Violate(cls, comp.String()+": "+aerr.Error(), c)
			os.RemoveAll(out)
			continue
		}
		got, rerr := wvlib.ReadTree(out)
		if rerr != nil {
			env.R.Violate("output-unreadable", rerr.Error(), c)
		} else if d := wvlib.DiffTrees(got, nw); d != "" {
			env.R.Violate("tree-differs", comp.String()+": "+d, c)
		}
		// the other two ways a caller can apply a patch to a fresh place: the one-call helper, and a bowl that
		// writes into a pool (files only: such a bowl knows nothing of directories and symlinks)
		if (c.Seed+uint64(ci))%3 == 0 {
			out2 := base + fmt.Sprintf("/outpf%d", ci)
			err := func() (err error) {
				defer func() {
					if r := recover(); r != nil {
						err = fmt.Errorf("PANIC %v", r)
					}
				}()
				return patcher.PatchFresh(patcher.PatchFreshParams{PatchReader: seeksource.FromBytes(ev.Res.Patch), TargetDir: od, OutputDir: out2, Consumer: quietConsumer})
			}()
			if err != nil {
				env.R.Violate("apply-error:PatchFresh", comp.String()+": "+err.Error(), c)
			} else if got2, _ := wvlib.ReadTree(out2); wvlib.DiffTrees(got2, nw) != "" {
				env.R.Violate("tree-differs:PatchFresh", comp.String()+": "+wvlib.DiffTrees(got2, nw), c)
			}
			os.RemoveAll(out2)
			env.R.Count("applied-through-PatchFresh", 1)
		}
		if (c.Seed+uint64(ci))%3 == 1 {
			out3 := base + fmt.Sprintf("/outpb%d", ci)
			if err := applyPoolBowl(ev.Res.Patch, od, out3); err != nil {
				env.R.Violate("apply-error:pool-bowl", comp.String()+": "+err.Error(), c)
			} else {
				for _, e := range nw.Files() {
					if b, err := os.ReadFile(out3 + "/" + e.Path); err != nil || !bytes.Equal(b, e.Data) {
						env.R.Violate("file-differs:pool-bowl", fmt.Sprintf("%s: %s differs from the new build (%v)", comp.String(), e.Path, err), c)
						break
					}
				}
			}
			os.RemoveAll(out3)
			env.R.Count("applied-through-pool-bowl", 1)
		}
		if ci == 0 && rerr == nil {
			// model: the tree the fresh bowl makes of the new build (Prepare + every file written once), files the
			// patcher transposes going through the pool writer, the others through the entry writer
			nl := base + "/new.lst"
			writeBuildListing(nl, ev.Res.New, nw)
			var tr []string
			cur := int64(-1)
			_, _, pm, _ := decodePatch(ev.Res.Patch)
			for k, mm := range pm {
				if mm.Kind == "H" {
					cur = mm.B
					// a series whose first op spans the whole of an equally sized old file is a transposition
					if k+1 < len(pm) && pm[k+1].Kind == "O" && pm[k+1].A == 0 && pm[k+1].C == 0 && int(cur) < len(ev.Res.New.Files) && int(pm[k+1].B) < len(ev.Res.Old.Files) {
						of, nf := ev.Res.Old.Files[pm[k+1].B], ev.Res.New.Files[cur]
						if of.Size == nf.Size && pm[k+1].D == (nf.Size+int64(wvlib.BS)-1)/int64(wvlib.BS) {
							tr = append(tr, fmt.Sprint(cur))
						}
					}
				}
			}
			trs := "-"
			if len(tr) > 0 {
				trs = strings.Join(tr, ",")
			}
			ans, merr := m.Ask(fmt.Sprintf("freshtree %s %s", nl, trs))
			impl := "ok " + treeCanonLines(got)
			mcmp := ans
			if strings.HasPrefix(ans, "ok ") {
				var ls []string
				for _, l := range strings.Split(ans[3:], ";") {
					if l != "" {
						ls = append(ls, l)
					}
				}
				sort.Strings(ls)
				mcmp = "ok " + strings.Join(ls, ";")
			}
			if merr != nil {
				env.R.Disagree(c, trunc(impl, 200), "MODEL-DIED", "n/a")
			} else if mcmp != impl {
				env.R.Disagree(c, "fresh tree: "+firstDiffContext(impl, mcmp), "fresh tree: "+firstDiffContext(mcmp, impl), "n/a")
			}
			env.R.Count("fresh-tree-compared-with-model", 1)
		}
		os.RemoveAll(out)
		env.R.Count("comp:"+comp.String(), 1)
	}
	env.R.Eval(c.Seed, nontrivial)
	for _, r := range c.Rel {
		env.R.Count("rel:"+r, 1)
	}
	for _, f := range nw.Files() {
		env.R.Count("size-class:"+sizeClass(len(f.Data)), 1)
	}
}

func sizeClass(n int) string {
	switch {
	case n == 0:
		return "0"
	case n < wvlib.BS:
		return "<1blk"
	case n%wvlib.BS == 0 && n <= 4*1024*1024:
		return "k*blk"
	case n > 4*1024*1024:
		return ">4MiB"
	default:
		return "k*blk+tail"
	}
}

// firstDiffContext shows a around the first position where it differs from b.
func firstDiffContext(a, b string) string {
	i := 0
	for i < len(a) && i < len(b) && a[i] == b[i] {
		i++
	}
	lo := i - 120
	if lo < 0 {
		lo = 0
	}
	hi := i + 200
	if hi > len(a) {
		hi = len(a)
	}
	return fmt.Sprintf("...@%d: %s", i, a[lo:hi])
}

func startModels(env *Env) chan *wvlib.Model {
	models := make(chan *wvlib.Model, env.Workers)
	for i := 0; i < env.Workers; i++ {
		m, err := wvlib.StartModel()
		if err != nil {
			fmt.Fprintln(os.Stderr, "cannot start model:", err)
			os.Exit(2)
		}
		models <- m
	}
	return models
}

func stopModels(env *Env, models chan *wvlib.Model) {
	close(models)
	for m := range models {
		env.R.ModelLines += m.Lines
		m.Close()
	}
}

func replayCase(env *Env, v interface{}) {
	b, err := os.ReadFile(env.Replay)
	if err != nil {
		fmt.Fprintln(os.Stderr, err)
		os.Exit(2)
	}
	var wrap struct {
		Case json.RawMessage `json:"case"`
	}
	if err := json.Unmarshal(b, &wrap); err != nil || wrap.Case == nil {
		json.Unmarshal(b, v)
		return
	}
	json.Unmarshal(wrap.Case, v)
}

func printOutcome(env *Env) {
	for _, v := range env.R.Violations {
		fmt.Printf("oracle: %s: %s\n", v.Class, v.Detail)
	}
	for _, d := range env.R.Disagreements {
		fmt.Printf("impl : %s\nmodel: %s\n", trunc(d.Impl, 800), trunc(d.Model, 800))
	}
	if len(env.R.Violations) == 0 && len(env.R.Disagreements) == 0 {
		fmt.Println("replay: no violation, no disagreement")
	}
}

func runC01(env *Env) {
	R := env.R
	R.Rule = "random build pairs from the relation generator (unchanged/patched/renamed/duplicated/swapped/chained/block-aligned prefix-suffix/shared blocks/added/removed/empty files, symlinks, empty dirs; sizes on and around block multiples, some > 4 MiB) x compression settings; distinct by seed; non-trivial = the patch contains both block ranges and data"
	if env.Replay != "" {
		var c PairCase
		replayCase(env, &c)
		m, _ := wvlib.StartModel()
		defer m.Close()
		c01One(env, m, &c, []Comp{c.Comp})
		printOutcome(env)
		return
	}
	n := 150
	if env.Thorough() {
		n = 3000
	}
	rng := wvlib.NewRng(env.Seed)
	cases := make([]*PairCase, n)
	grids := make([][]Comp, n)
	for i := range cases {
		o := wvlib.PairOpts{MaxFiles: 6, Symlinks: true, AllowLarge: i%10 == 3}
		if i%3 == 0 {
			o.SmallOnly = true
			o.MaxFiles = 10
		}
		cases[i] = &PairCase{Seed: rng.Next(), Opts: o}
		grids[i] = compGrid(rng, env.Thorough())
	}
	for _, raw := range corpusCases(env, "C01") {
		c := &PairCase{}
		if json.Unmarshal(raw, c) == nil {
			cases = append([]*PairCase{c}, cases...)
			grids = append([][]Comp{{{"none", 0}, c.Comp, {"gzip", 1}, {"gzip", 9}, {"brotli", 1}}}, grids...)
		}
	}
	n = len(cases)
	models := startModels(env)
	wvlib.ParallelDo(n, env.Workers, func(i int) {
		m := <-models
		defer func() { models <- m }()
		c01One(env, m, cases[i], grids[i])
		if i < 3 {
			R.Sample(cases[i])
		}
	})
	stopModels(env, models)
}

// applyPoolBowl applies a patch through bowl.NewPoolBowl writing into a filesystem pool rooted at outDir.
func applyPoolBowl(patch []byte, oldDir, outDir string) (err error) {
	defer func() {
		if r := recover(); r != nil {
			err = fmt.Errorf("PANIC %v", r)
		}
	}()
	p, err := patcher.New(seeksource.FromBytes(patch), quietConsumer)
	if err != nil {
		return err
	}
	if err := os.MkdirAll(outDir, 0o755); err != nil {
		return err
	}
	targetPool := fspool.New(p.GetTargetContainer(), oldDir)
	b, err := bowl.NewPoolBowl(bowl.PoolBowlParams{TargetContainer: p.GetTargetContainer(), SourceContainer: p.GetSourceContainer(),
		TargetPool: targetPool, OutputPool: fspool.New(p.GetSourceContainer(), outDir)})
	if err != nil {
		return err
	}
	if err := p.Resume(nil, targetPool, b); err != nil {
		return err
	}
	return b.Commit()
}
