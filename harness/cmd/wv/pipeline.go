package main

import (
	"bytes"
	"context"
	"fmt"
	"io"
	"os"
	"strings"

	"github.com/golang/protobuf/proto"
	"github.com/itchio/headway/state"
	"github.com/itchio/lake"
	"github.com/itchio/lake/pools/fspool"
	"github.com/itchio/lake/tlc"
	"github.com/itchio/savior/seeksource"
	"github.com/itchio/wharf/bsdiff"
	"github.com/itchio/wharf/pwr"
	"github.com/itchio/wharf/pwr/bowl"
	"github.com/itchio/wharf/pwr/patcher"
	"github.com/itchio/wharf/wire"
	"github.com/itchio/wharf/wsync"

	_ "github.com/itchio/wharf/compressors/cbrotli"
	_ "github.com/itchio/wharf/compressors/gzip"
	_ "github.com/itchio/wharf/decompressors/cbrotli"
	_ "github.com/itchio/wharf/decompressors/gzip"

	"wv/internal/wvlib"
)

// Comp is a compression setting.
type Comp struct {
	Algo    string `json:"algo"` // none | gzip | brotli
	Quality int    `json:"q"`
}

func (c Comp) settings() *pwr.CompressionSettings {
	cs := &pwr.CompressionSettings{Quality: int32(c.Quality)}
	switch c.Algo {
	case "gzip":
		cs.Algorithm = pwr.CompressionAlgorithm_GZIP
	case "brotli":
		cs.Algorithm = pwr.CompressionAlgorithm_BROTLI
	default:
		cs.Algorithm = pwr.CompressionAlgorithm_NONE
	}
	return cs
}

func (c Comp) String() string { return fmt.Sprintf("%s-q%d", c.Algo, c.Quality) }

var quietConsumer = &state.Consumer{}

// sliceReader returns adversarially short reads and, when eofWithData is set, hands out the last bytes of the
// file together with io.EOF (as io.Reader allows and zip/deflate readers do).
type sliceReader struct {
	r           io.ReadSeeker
	rng         *wvlib.Rng
	eofWithData bool
	end         int64
}

func newSliceReader(rs io.ReadSeeker, rng *wvlib.Rng) *sliceReader {
	s := &sliceReader{r: rs, rng: rng}
	if rng != nil && rng.Intn(2) == 0 {
		if cur, err := rs.Seek(0, io.SeekCurrent); err == nil {
			if end, err := rs.Seek(0, io.SeekEnd); err == nil {
				s.eofWithData, s.end = true, end
			}
			rs.Seek(cur, io.SeekStart)
		}
	}
	return s
}

func (s *sliceReader) Read(p []byte) (int, error) {
	if len(p) > 1 && s.rng != nil {
		n := 1 + s.rng.Intn(len(p))
		if s.rng.Intn(4) == 0 {
			n = 1 + s.rng.Intn(min(len(p), 7))
		}
		p = p[:n]
	}
	n, err := s.r.Read(p)
	if err == nil && n > 0 && s.eofWithData {
		if cur, serr := s.r.Seek(0, io.SeekCurrent); serr == nil && cur == s.end {
			return n, io.EOF
		}
	}
	return n, err
}
func (s *sliceReader) Seek(o int64, w int) (int64, error) { return s.r.Seek(o, w) }

// slicingPool wraps a pool so that its readers return short reads.
type slicingPool struct {
	lake.Pool
	rng *wvlib.Rng
}

func (p *slicingPool) GetReader(i int64) (io.Reader, error) {
	rs, err := p.Pool.GetReadSeeker(i)
	if err != nil {
		return nil, err
	}
	if _, err := rs.Seek(0, io.SeekStart); err != nil {
		return nil, err
	}
	return newSliceReader(rs, p.rng), nil
}
func (p *slicingPool) GetReadSeeker(i int64) (io.ReadSeeker, error) {
	rs, err := p.Pool.GetReadSeeker(i)
	if err != nil {
		return nil, err
	}
	return newSliceReader(rs, p.rng), nil
}

// DiffResult is what a real diff run produced.
type DiffResult struct {
	Patch, Sig    []byte
	Old, New      *tlc.Container
	OldSig        []wsync.BlockHash
	Fresh, Reused int64
}

// diffDirs runs the real signature + diff. slice != nil makes the source pool return short reads.
func diffDirs(oldDir, newDir string, comp Comp, slice *wvlib.Rng) (*DiffResult, error) {
	oldC, err := tlc.WalkAny(oldDir, tlc.WalkOpts{})
	if err != nil {
		return nil, err
	}
	newC, err := tlc.WalkAny(newDir, tlc.WalkOpts{})
	if err != nil {
		return nil, err
	}
	oldSig, err := pwr.ComputeSignature(context.Background(), oldC, fspool.New(oldC, oldDir), quietConsumer)
	if err != nil {
		return nil, err
	}
	var pool lake.Pool = fspool.New(newC, newDir)
	if slice != nil {
		pool = &slicingPool{Pool: pool, rng: slice}
	}
	dctx := &pwr.DiffContext{
		Compression: comp.settings(), Consumer: quietConsumer,
		SourceContainer: newC, Pool: pool, TargetContainer: oldC, TargetSignature: oldSig,
	}
	var pb, sb bytes.Buffer
	if err := dctx.WritePatch(context.Background(), &pb, &sb); err != nil {
		return nil, err
	}
	return &DiffResult{Patch: pb.Bytes(), Sig: sb.Bytes(), Old: oldC, New: newC, OldSig: oldSig, Fresh: dctx.FreshBytes, Reused: dctx.ReusedBytes}, nil
}

// storedSignature: the signature of a build as a second push sees it - written to a signature stream by a diff
// against nothing, then loaded back with ReadSignature (the stream does not carry every field: ShortSize is
// rebuilt from the container).
func storedSignature(dir string) (*pwr.SignatureInfo, error) {
	c, err := tlc.WalkAny(dir, tlc.WalkOpts{})
	if err != nil {
		return nil, err
	}
	dctx := &pwr.DiffContext{
		Compression: Comp{"none", 0}.settings(), Consumer: quietConsumer,
		SourceContainer: c, Pool: fspool.New(c, dir), TargetContainer: &tlc.Container{}, TargetSignature: nil,
	}
	var pb, sb bytes.Buffer
	if err := dctx.WritePatch(context.Background(), &pb, &sb); err != nil {
		return nil, err
	}
	return pwr.ReadSignature(context.Background(), bytesSource(sb.Bytes()))
}

// diffAgainstStored diffs newDir against the STORED signature of oldDir; returns fresh and reused byte counts.
func diffAgainstStored(oldDir, newDir string) (fresh, reused int64, err error) {
	si, err := storedSignature(oldDir)
	if err != nil {
		return 0, 0, err
	}
	newC, err := tlc.WalkAny(newDir, tlc.WalkOpts{})
	if err != nil {
		return 0, 0, err
	}
	dctx := &pwr.DiffContext{
		Compression: Comp{"none", 0}.settings(), Consumer: quietConsumer,
		SourceContainer: newC, Pool: fspool.New(newC, newDir), TargetContainer: si.Container, TargetSignature: si.Hashes,
	}
	var pb, sb bytes.Buffer
	if err := dctx.WritePatch(context.Background(), &pb, &sb); err != nil {
		return 0, 0, err
	}
	return dctx.FreshBytes, dctx.ReusedBytes, nil
}

// PMsg is a decoded patch message in canonical form.
type PMsg struct {
	Kind        string // H, O (sync op), B (bsdiff header), C (control)
	A, B, C, D  int64
	Data, Data2 []byte
	Eof         bool
}

// decodePatch reads a patch with the real wire reader (after real decompression) into containers + messages.
// It mirrors the series structure: per file a SyncHeader, then SyncOps until HEY, or BsdiffHeader, Controls until eof, then a SyncOp.
func decodePatch(patch []byte) (oldC, newC *tlc.Container, msgs []PMsg, err error) {
	src := bytesSource(patch)
	raw := wire.NewReadContext(src)
	if err = raw.ExpectMagic(pwr.PatchMagic); err != nil {
		return
	}
	hdr := &pwr.PatchHeader{}
	if err = raw.ReadMessage(hdr); err != nil {
		return
	}
	rctx, err := pwr.DecompressWire(raw, hdr.Compression)
	if err != nil {
		return
	}
	oldC, newC = &tlc.Container{}, &tlc.Container{}
	if err = rctx.ReadMessage(oldC); err != nil {
		return
	}
	if err = rctx.ReadMessage(newC); err != nil {
		return
	}
	for range newC.Files {
		sh := &pwr.SyncHeader{}
		if err = rctx.ReadMessage(sh); err != nil {
			return
		}
		msgs = append(msgs, PMsg{Kind: "H", A: int64(sh.Type), B: sh.FileIndex})
		if sh.Type == pwr.SyncHeader_BSDIFF {
			bh := &pwr.BsdiffHeader{}
			if err = rctx.ReadMessage(bh); err != nil {
				return
			}
			msgs = append(msgs, PMsg{Kind: "B", A: bh.TargetIndex})
			for {
				c := &bsdiff.Control{}
				if err = rctx.ReadMessage(c); err != nil {
					return
				}
				msgs = append(msgs, PMsg{Kind: "C", A: c.Seek, Data: append([]byte(nil), c.Add...), Data2: append([]byte(nil), c.Copy...), Eof: c.Eof})
				if c.Eof {
					break
				}
			}
			op := &pwr.SyncOp{}
			if err = rctx.ReadMessage(op); err != nil {
				return
			}
			msgs = append(msgs, PMsg{Kind: "O", A: int64(op.Type), B: op.FileIndex, C: op.BlockIndex, D: op.BlockSpan, Data: append([]byte(nil), op.Data...)})
			continue
		}
		for {
			op := &pwr.SyncOp{}
			if err = rctx.ReadMessage(op); err != nil {
				return
			}
			msgs = append(msgs, PMsg{Kind: "O", A: int64(op.Type), B: op.FileIndex, C: op.BlockIndex, D: op.BlockSpan, Data: append([]byte(nil), op.Data...)})
			if op.Type == pwr.SyncOp_HEY_YOU_DID_IT {
				break
			}
		}
	}
	// nothing may follow
	extra := &pwr.SyncOp{}
	if e := rctx.ReadMessage(extra); e == nil {
		err = fmt.Errorf("trailing message after the last series")
	}
	return
}

func canonMsgs(msgs []PMsg) string {
	var sb strings.Builder
	for i, m := range msgs {
		if i > 0 {
			sb.WriteByte(';')
		}
		switch m.Kind {
		case "H":
			fmt.Fprintf(&sb, "H %d %d", m.A, m.B)
		case "B":
			fmt.Fprintf(&sb, "B %d", m.A)
		case "C":
			if m.Eof {
				sb.WriteString("CE")
			} else {
				fmt.Fprintf(&sb, "C %d %d %d %d %d", len(m.Data), wvlib.Fnv(m.Data), len(m.Data2), wvlib.Fnv(m.Data2), m.A)
			}
		case "O":
			switch m.A {
			case int64(pwr.SyncOp_BLOCK_RANGE):
				fmt.Fprintf(&sb, "R %d %d %d", m.B, m.C, m.D)
			case int64(pwr.SyncOp_DATA):
				fmt.Fprintf(&sb, "D %d %d", len(m.Data), wvlib.Fnv(m.Data))
			case int64(pwr.SyncOp_HEY_YOU_DID_IT):
				sb.WriteString("E")
			default:
				fmt.Fprintf(&sb, "O? %d", m.A)
			}
		}
	}
	return sb.String()
}

// encodePatch writes containers + messages as an uncompressed patch (used to build mutated/synthetic patches).
func encodePatch(oldC, newC *tlc.Container, msgs []PMsg, comp Comp) ([]byte, error) {
	var buf bytes.Buffer
	raw := wire.NewWriteContext(&buf)
	if err := raw.WriteMagic(pwr.PatchMagic); err != nil {
		return nil, err
	}
	if err := raw.WriteMessage(&pwr.PatchHeader{Compression: comp.settings()}); err != nil {
		return nil, err
	}
	w, err := pwr.CompressWire(raw, comp.settings())
	if err != nil {
		return nil, err
	}
	if err := w.WriteMessage(oldC); err != nil {
		return nil, err
	}
	if err := w.WriteMessage(newC); err != nil {
		return nil, err
	}
	for _, m := range msgs {
		var pm proto.Message
		switch m.Kind {
		case "H":
			pm = &pwr.SyncHeader{Type: pwr.SyncHeader_Type(m.A), FileIndex: m.B}
		case "B":
			pm = &pwr.BsdiffHeader{TargetIndex: m.A}
		case "C":
			pm = &bsdiff.Control{Add: m.Data, Copy: m.Data2, Seek: m.A, Eof: m.Eof}
		case "O":
			pm = &pwr.SyncOp{Type: pwr.SyncOp_Type(m.A), FileIndex: m.B, BlockIndex: m.C, BlockSpan: m.D, Data: m.Data}
		}
		if err := w.WriteMessage(pm); err != nil {
			return nil, err
		}
	}
	if err := w.Close(); err != nil {
		return nil, err
	}
	return buf.Bytes(), nil
}

// applyFresh applies a patch with the real patcher into a fresh bowl. targetPool may wrap the old dir.
func applyFresh(patch []byte, oldDir, outDir string, wrapPool func(lake.Pool, *tlc.Container) (lake.Pool, error), whitelist map[int64]bool) (touched int64, err error) {
	defer func() {
		if r := recover(); r != nil {
			err = fmt.Errorf("PANIC %v", r)
		}
	}()
	p, err := patcher.New(seeksource.FromBytes(patch), quietConsumer)
	if err != nil {
		return 0, err
	}
	var targetPool lake.Pool = fspool.New(p.GetTargetContainer(), oldDir)
	if wrapPool != nil {
		targetPool, err = wrapPool(targetPool, p.GetTargetContainer())
		if err != nil {
			return 0, err
		}
	}
	b, err := bowl.NewFreshBowl(bowl.FreshBowlParams{
		SourceContainer: p.GetSourceContainer(), TargetContainer: p.GetTargetContainer(),
		TargetPool: targetPool, OutputFolder: outDir,
	})
	if err != nil {
		return 0, err
	}
	if whitelist != nil {
		p.SetSourceIndexWhitelist(whitelist)
	}
	if err = p.Resume(nil, targetPool, b); err != nil {
		return p.GetTouchedFiles(), err
	}
	if err = b.Commit(); err != nil {
		return p.GetTouchedFiles(), err
	}
	return p.GetTouchedFiles(), b.Close()
}

// applyOverlay applies a patch in place on dir (which holds the old build) through the overlay bowl.
// preCommit, if non-nil, is called right before Commit.
func applyOverlay(patch []byte, dir, stageDir string, preCommit func()) (err error) {
	defer func() {
		if r := recover(); r != nil {
			err = fmt.Errorf("PANIC %v", r)
		}
	}()
	p, err := patcher.New(seeksource.FromBytes(patch), quietConsumer)
	if err != nil {
		return err
	}
	targetPool := fspool.New(p.GetTargetContainer(), dir)
	b, err := bowl.NewOverlayBowl(bowl.OverlayBowlParams{
		SourceContainer: p.GetSourceContainer(), TargetContainer: p.GetTargetContainer(),
		OutputFolder: dir, StageFolder: stageDir, Consumer: quietConsumer,
	})
	if err != nil {
		return err
	}
	if err = p.Resume(nil, targetPool, b); err != nil {
		return err
	}
	if preCommit != nil {
		preCommit()
	}
	if err = b.Commit(); err != nil {
		return err
	}
	return b.Close()
}

// writePair materialises a pair under a fresh scratch directory and returns (oldDir, newDir, cleanup).
func writePair(sc *wvlib.Scratch, old, nw *wvlib.Build) (string, string, string, func()) {
	base := sc.Sub("pair")
	od, nd := base+"/old", base+"/new"
	if err := old.Write(od); err != nil {
		panic(err)
	}
	if err := nw.Write(nd); err != nil {
		panic(err)
	}
	return base, od, nd, func() { os.RemoveAll(base) }
}

// pairModelLine renders the files of a pair, in container order, for the model's `diffbuild` command.
func pairModelLine(sc *wvlib.Scratch, oldC, newC *tlc.Container, oldDir, newDir string) (string, func()) {
	var sb strings.Builder
	var cleans []func()
	add := func(c *tlc.Container, dir string) {
		fmt.Fprintf(&sb, " %d", len(c.Files))
		for _, f := range c.Files {
			data, err := os.ReadFile(dir + "/" + f.Path)
			if err != nil {
				panic(err)
			}
			var t string
			if len(data) <= 256 {
				var cl func()
				t, cl = sc.Tok(data)
				cleans = append(cleans, cl)
			} else {
				t = "f:" + dir + "/" + f.Path
			}
			fmt.Fprintf(&sb, " %s %s", f.Path, t)
		}
	}
	add(oldC, oldDir)
	add(newC, newDir)
	return sb.String(), func() {
		for _, c := range cleans {
			c()
		}
	}
}
