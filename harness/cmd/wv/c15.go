package main

import (
	"bytes"
	"fmt"
	"runtime"

	"wv/internal/wvlib"
)

func init() { runners["C15"] = runC15 }

type C15Case struct {
	PairCase
	Ties    bool `json:"ties"`
	Repeats int  `json:"repeats"`
}

func c15One(env *Env, m *wvlib.Model, c *C15Case) {
	var old, nw *wvlib.Build
	if c.Ties {
		old, nw = tiesPair(wvlib.NewRng(c.Seed))
	} else {
		old, nw = c.gen()
	}
	_, od, nd, clean := writePair(env.Scratch, old, nw)
	defer clean()
	var refPatch, refSig, refOpt []byte
	procs := []int{1, 4, 16, 2, 7}
	for rep := 0; rep < c.Repeats; rep++ {
		prev := runtime.GOMAXPROCS(procs[rep%len(procs)])
		var slice *wvlib.Rng
		if rep%2 == 1 {
			slice = wvlib.NewRng(c.Seed ^ uint64(rep)*0x9e3779b97f4a7c15) // different short-read slicing every time
		}
		res, err := diffDirs(od, nd, c.Comp, slice)
		runtime.GOMAXPROCS(prev)
		if err != nil {
			env.R.Violate("diff-error", err.Error(), c)
			return
		}
		if rep == 0 {
			refPatch, refSig = res.Patch, res.Sig
			// model: the message list is a function of the builds
			ev, err := evalPair(env, m, od, nd, c.Comp, nil, true)
			if err == nil && ev.ModelErr == nil && ev.ModelMsgs != ev.ImplMsgs {
				env.R.Disagree(c, "msgs: "+firstDiffContext(ev.ImplMsgs, ev.ModelMsgs), "msgs: "+firstDiffContext(ev.ModelMsgs, ev.ImplMsgs), "n/a")
			}
		} else {
			if !bytes.Equal(res.Patch, refPatch) {
				env.R.Violate("patch-bytes-differ-between-runs", fmt.Sprintf("run %d (GOMAXPROCS %d, slicing %v): %d vs %d bytes, first difference at %d", rep, procs[rep%len(procs)], slice != nil, len(res.Patch), len(refPatch), firstDiffBytes(res.Patch, refPatch)), c)
			}
			if !bytes.Equal(res.Sig, refSig) {
				env.R.Violate("signature-bytes-differ-between-runs", fmt.Sprintf("run %d: first difference at %d", rep, firstDiffBytes(res.Sig, refSig)), c)
			}
		}
		// optimizer determinism for fixed parameters
		o := optimizeReal(res.Patch, od, nd, &C07Case{Force: c.Ties || rep%2 == 0, OutComp: Comp{"none", 0}, Partitions: 2, Conc: 2}, res)
		if o.err != "" {
			env.R.Violate("optimizer-error", o.err, c)
			return
		}
		if rep < 2 {
			if rep == 0 {
				refOpt = o.patch
			}
		} else if rep%2 == 0 && !bytes.Equal(o.patch, refOpt) {
			cls := "optimized-bytes-differ-between-runs"
			if c.Ties {
				cls = "optimized-bytes-differ-between-runs:tie-candidates"
			}
			env.R.Violate(cls, fmt.Sprintf("run %d: first difference at %d", rep, firstDiffBytes(o.patch, refOpt)), c)
		}
	}
	env.R.Eval(c.Seed, true)
	env.R.Count("comp:"+c.Comp.Algo, 1)
	if c.Ties {
		env.R.Count("tie-candidates", 1)
	}
}

func firstDiffBytes(a, b []byte) int {
	n := len(a)
	if len(b) < n {
		n = len(b)
	}
	for i := 0; i < n; i++ {
		if a[i] != b[i] {
			return i
		}
	}
	return n
}

func runC15(env *Env) {
	R := env.R
	R.Rule = "build pairs (incl. pairs where several old files tie as bsdiff candidates) diffed repeatedly under GOMAXPROCS {1,2,4,7,16} with full and adversarially short source reads; patch and signature bytes compared across runs; the optimizer repeated with fixed parameters; distinct by seed; every case is non-trivial (at least 4 runs compared)"
	if env.Replay != "" {
		var c C15Case
		replayCase(env, &c)
		m, _ := wvlib.StartModel()
		defer m.Close()
		c15One(env, m, &c)
		printOutcome(env)
		return
	}
	n := 36
	reps := 5
	if env.Thorough() {
		n, reps = 300, 20
	}
	rng := wvlib.NewRng(env.Seed)
	comps := []Comp{{"none", 0}, {"gzip", 1}, {"brotli", 1}}
	cases := make([]*C15Case, n)
	for i := range cases {
		cases[i] = &C15Case{PairCase: PairCase{Seed: rng.Next(), Opts: wvlib.PairOpts{MaxFiles: 5, SmallOnly: i%3 != 0, Symlinks: true}, Comp: comps[i%3]}, Ties: i%4 == 1, Repeats: reps}
	}
	models := startModels(env)
	// GOMAXPROCS is process-wide: run cases one at a time
	for i, c := range cases {
		m := <-models
		c15One(env, m, c)
		models <- m
		if i < 3 {
			R.Sample(c)
		}
	}
	stopModels(env, models)
}
