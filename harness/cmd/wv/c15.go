package main

import (
	"bytes"
	"fmt"
	"os"
	"runtime"
	"strconv"
	"strings"
	"time"

	"wv/internal/wvlib"
)

func init() { runners["C15"] = runC15 }

type C15Case struct {
	PairCase
	Ties    bool `json:"ties"`
	Repeats int  `json:"repeats"`
}

func init() { childHandlers["C15"] = c15Child }

// c15Child: `<oldDir> <newDir> <partitions> <force> <comp algo> <q>` -> "<numcpu> <fnv patch> <fnv sig> <fnv optimized>":
// the whole pipeline (diff + sign + optimize) in a process that may be pinned to fewer CPUs.
func c15Child(line string) string {
	f := strings.Fields(line)
	if len(f) != 6 {
		return "err bad request"
	}
	parts, _ := strconv.Atoi(f[2])
	q, _ := strconv.Atoi(f[5])
	res, err := diffDirs(f[0], f[1], Comp{f[4], q}, nil)
	if err != nil {
		return "err " + err.Error()
	}
	o := optimizeReal(res.Patch, f[0], f[1], &C07Case{Force: f[3] == "1", OutComp: Comp{"none", 0}, Partitions: parts, Conc: parts}, res)
	if o.err != "" {
		return "err " + o.err
	}
	return fmt.Sprintf("%d %x %x %x", runtime.NumCPU(), wvlib.Fnv(res.Patch), wvlib.Fnv(res.Sig), wvlib.Fnv(o.patch))
}

// c15Pinned holds children pinned to 1, 2 and 3 CPUs (nil when the sandbox does not allow it).
var c15Pinned []*wvlib.Child

func c15StartPinned(env *Env) {
	for _, set := range []string{"0", "0,1", "0-2"} {
		ch, err := wvlib.StartChildWith([]string{"taskset", "-c", set}, "C15")
		if err != nil {
			env.R.Count("cpu-pinned-children-unavailable", 1)
			continue
		}
		c15Pinned = append(c15Pinned, ch)
	}
}

func c15StopPinned() {
	for _, ch := range c15Pinned {
		ch.Close()
	}
	c15Pinned = nil
}

// c15CPUCount: the same builds and parameters in processes that see 1, 2, 3 and all CPUs must give the same bytes.
func c15CPUCount(env *Env, c *C15Case, od, nd string) {
	if len(c15Pinned) == 0 {
		return
	}
	for _, parts := range []int{2, 4, 8} {
		force := "0"
		if c.Ties || parts == 4 {
			force = "1"
		}
		res, err := diffDirs(od, nd, c.Comp, nil)
		if err != nil {
			return
		}
		o := optimizeReal(res.Patch, od, nd, &C07Case{Force: force == "1", OutComp: Comp{"none", 0}, Partitions: parts, Conc: parts}, res)
		if o.err != "" {
			return
		}
		want := fmt.Sprintf("%x %x %x", wvlib.Fnv(res.Patch), wvlib.Fnv(res.Sig), wvlib.Fnv(o.patch))
		for _, ch := range c15Pinned {
			ans, crashed, diag := ch.Ask(fmt.Sprintf("%s %s %d %s %s %d", od, nd, parts, force, c.Comp.Algo, c.Comp.Quality), 120*time.Second)
			if crashed {
				env.R.Violate("pinned-run-crashed", diag, c)
				continue
			}
			f := strings.SplitN(ans, " ", 2)
			if len(f) != 2 || f[0] == "err" {
				env.R.Violate("pinned-run-error", ans, c)
				continue
			}
			env.R.Count("cpu-pinned-runs:numcpu="+f[0], 1)
			if f[1] != want {
				env.R.Violate("bytes-depend-on-cpu-count", fmt.Sprintf("partitions=%d: a process seeing %s CPU(s) produced (patch sig optimized) %s, this process (%d CPUs) %s", parts, f[0], f[1], runtime.NumCPU(), want), c)
			}
		}
	}
}

func c15One(env *Env, m *wvlib.Model, c *C15Case) {
	var old, nw *wvlib.Build
	if c.Ties {
		old, nw = tiesPair(wvlib.NewRng(c.Seed))
	} else {
		old, nw = c.gen()
	}
	_, od, nd, clean := writePair(env.Scratch, old, nw)
	defer clean()
	var refPatch, refSig, refOpt []byte
	procs := []int{1, 4, 16, 2, 7}
	for rep := 0; rep < c.Repeats; rep++ {
		prev := runtime.GOMAXPROCS(procs[rep%len(procs)])
		var slice *wvlib.Rng
		if rep%2 == 1 {
			slice = wvlib.NewRng(c.Seed ^ uint64(rep)*0x9e3779b97f4a7c15) // different short-read slicing every time
		}
		res, err := diffDirs(od, nd, c.Comp, slice)
		runtime.GOMAXPROCS(prev)
		if err != nil {
			env.R.Violate("diff-error", err.Error(), c)
			return
		}
		if rep == 0 {
			refPatch, refSig = res.Patch, res.Sig
			// model: the message list is a function of the builds
			ev, err := evalPair(env, m, od, nd, c.Comp, nil, true)
			if err == nil && ev.ModelErr == nil && ev.ModelMsgs != ev.ImplMsgs {
				env.R.Disagree(c, "msgs: "+firstDiffContext(ev.ImplMsgs, ev.ModelMsgs), "msgs: "+firstDiffContext(ev.ModelMsgs, ev.ImplMsgs), "n/a")
			}
		} else {
			if !bytes.Equal(res.Patch, refPatch) {
				env.R.Violate("patch-bytes-differ-between-runs", fmt.Sprintf("run %d (GOMAXPROCS %d, slicing %v): %d vs %d bytes, first difference at %d", rep, procs[rep%len(procs)], slice != nil, len(res.Patch), len(refPatch), firstDiffBytes(res.Patch, refPatch)), c)
			}
			if !bytes.Equal(res.Sig, refSig) {
				env.R.Violate("signature-bytes-differ-between-runs", fmt.Sprintf("run %d: first difference at %d", rep, firstDiffBytes(res.Sig, refSig)), c)
			}
		}
		// optimizer determinism for fixed parameters
		o := optimizeReal(res.Patch, od, nd, &C07Case{Force: c.Ties || rep%2 == 0, OutComp: Comp{"none", 0}, Partitions: 2, Conc: 2}, res)
		if o.err != "" {
			env.R.Violate("optimizer-error", o.err, c)
			return
		}
		if rep < 2 {
			if rep == 0 {
				refOpt = o.patch
			}
		} else if rep%2 == 0 && !bytes.Equal(o.patch, refOpt) {
			cls := "optimized-bytes-differ-between-runs"
			if c.Ties {
				cls = "optimized-bytes-differ-between-runs:tie-candidates"
			}
			env.R.Violate(cls, fmt.Sprintf("run %d: first difference at %d", rep, firstDiffBytes(o.patch, refOpt)), c)
		}
	}
	c15CPUCount(env, c, od, nd)
	env.R.Eval(c.Seed, true)
	env.R.Count("comp:"+c.Comp.Algo, 1)
	if c.Ties {
		env.R.Count("tie-candidates", 1)
	}
}

func firstDiffBytes(a, b []byte) int {
	n := len(a)
	if len(b) < n {
		n = len(b)
	}
	for i := 0; i < n; i++ {
		if a[i] != b[i] {
			return i
		}
	}
	return n
}

func runC15(env *Env) {
	R := env.R
	R.Rule = "build pairs (incl. pairs where several old files tie as bsdiff candidates) diffed repeatedly under GOMAXPROCS {1,2,4,7,16} with full and adversarially short source reads; patch and signature bytes compared across runs; the optimizer repeated with fixed parameters; the whole pipeline repeated in child processes pinned to 1, 2 and 3 CPUs (taskset) with partitions 2/4/8; distinct by seed; every case is non-trivial (at least 4 runs compared)"
	if env.Replay != "" {
		var ac C15AbandonedCase
		replayCase(env, &ac)
		if ac.Kind == "after-cancelled-diff" {
			c15Abandoned(env, &ac)
			printOutcome(env)
			return
		}
		var c C15Case
		replayCase(env, &c)
		m, _ := wvlib.StartModel()
		defer m.Close()
		c15StartPinned(env)
		defer c15StopPinned()
		c15One(env, m, &c)
		printOutcome(env)
		return
	}
	n := 36
	reps := 5
	if env.Thorough() {
		n, reps = 150, 12
	}
	raceRun := os.Getenv("WV_C15_RACE") != ""
	if raceRun {
		// under the race detector (10-20x slower): a handful of pairs, no pinned children (they would be
		// uninstrumented copies of this binary doing the same)
		n, reps = 5, 2
	}
	rng := wvlib.NewRng(env.Seed)
	comps := []Comp{{"none", 0}, {"gzip", 1}, {"brotli", 1}}
	cases := make([]*C15Case, n)
	for i := range cases {
		cases[i] = &C15Case{PairCase: PairCase{Seed: rng.Next(), Opts: wvlib.PairOpts{MaxFiles: 5, SmallOnly: i%3 != 0, Symlinks: true}, Comp: comps[i%3]}, Ties: i%4 == 1, Repeats: reps}
	}
	if !raceRun {
		c15StartPinned(env)
		defer c15StopPinned()
	}
	models := startModels(env)
	// GOMAXPROCS is process-wide: run cases one at a time
	for i, c := range cases {
		m := <-models
		c15One(env, m, c)
		models <- m
		if i < 3 {
			R.Sample(c)
		}
	}
	stopModels(env, models)
	// a diff started after a CANCELLED diff has returned (its goroutines still winding down)
	nAb := 6
	if env.Thorough() {
		nAb = 60
	}
	for i := 0; i < nAb; i++ {
		c15Abandoned(env, &C15AbandonedCase{Seed: rng.Next(), Comp: comps[i%3], Paused: i%2 == 0, Kind: "after-cancelled-diff"})
	}
}
