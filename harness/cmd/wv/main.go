// wv: correspondence harness between the Lean model (wvmodel) and itchio/wharf, one subcommand per property.
package main

import (
	"flag"
	"fmt"
	"os"
	"runtime"
	"strconv"

	"wv/internal/wvlib"
)

type runner func(env *Env)

// Env is what every property runner receives.
type Env struct {
	Prop    string
	Tier    string
	Seed    uint64
	Workers int
	Replay  string
	R       *wvlib.Report
	Scratch *wvlib.Scratch
}

func (e *Env) Thorough() bool { return e.Tier == "thorough" }

var runners = map[string]runner{}

// childHandlers answer one request line inside an isolated child process (see wvlib.Child).
var childHandlers = map[string]func(line string) string{}

func main() {
	if len(os.Args) < 2 {
		fmt.Fprintln(os.Stderr, "usage: wv <ID> [--tier quick|thorough] [--seed N] [--out report.json] [--replay case.json]")
		os.Exit(2)
	}
	if os.Args[1] == "child" && len(os.Args) >= 3 {
		if h, ok := childHandlers[os.Args[2]]; ok {
			wvlib.ChildLoop(h)
			return
		}
		os.Exit(2)
	}
	prop := os.Args[1]
	fs := flag.NewFlagSet("wv", flag.ExitOnError)
	tier := fs.String("tier", "quick", "quick|thorough")
	seedS := fs.String("seed", "", "seed (default VERIF_SEED or 1)")
	out := fs.String("out", "", "report path")
	replay := fs.String("replay", "", "replay a case file")
	workers := fs.Int("workers", runtime.NumCPU(), "parallel workers")
	fs.Parse(os.Args[2:])

	seed := uint64(1)
	if *seedS == "" {
		*seedS = os.Getenv("VERIF_SEED")
	}
	if *seedS != "" {
		if v, err := strconv.ParseUint(*seedS, 10, 64); err == nil {
			seed = v
		}
	}
	run, ok := runners[prop]
	if !ok {
		fmt.Fprintf(os.Stderr, "unknown property %s\n", prop)
		os.Exit(2)
	}
	env := &Env{Prop: prop, Tier: *tier, Seed: seed, Workers: *workers, Replay: *replay,
		R: wvlib.NewReport(prop, *tier, seed), Scratch: wvlib.NewScratch()}
	defer env.Scratch.Cleanup()
	run(env)
	if *out != "" {
		if err := env.R.Write(*out); err != nil {
			fmt.Fprintln(os.Stderr, err)
			env.Scratch.Cleanup()
			os.Exit(2)
		}
	}
	fmt.Printf("wv %s: evaluations=%d nontrivial=%d violations=%d disagreements=%d\n", prop,
		env.R.Evaluations, env.R.Nontrivial, len(env.R.Violations), len(env.R.Disagreements))
}
