package main

import (
	"bytes"
	"context"
	"fmt"
	"io"
	"sync"
	"time"

	"github.com/itchio/headway/state"
	"github.com/itchio/lake/tlc"
	"github.com/itchio/wharf/pwr"

	"wv/internal/wvlib"
)

// A diff that was cancelled while its source read was stalled returns at once (taskgroup does not wait for the
// tasks of a cancelled group); its goroutines wind down later.  A diff started in the meantime — same builds,
// same settings as a reference run — must still write the reference bytes, whatever the abandoned one is doing.

// c15HookPool: a single-file in-memory pool whose reader calls beforeRead(offset) before every read.
type c15HookPool struct {
	data       []byte
	beforeRead func(offset int)
}

func (p *c15HookPool) GetSize(int64) int64 { return int64(len(p.data)) }
func (p *c15HookPool) GetReader(int64) (io.Reader, error) {
	return &c15HookReader{pool: p}, nil
}
func (p *c15HookPool) GetReadSeeker(int64) (io.ReadSeeker, error) {
	return bytes.NewReader(p.data), nil
}
func (p *c15HookPool) Close() error { return nil }

type c15HookReader struct {
	pool   *c15HookPool
	offset int
}

func (r *c15HookReader) Read(buf []byte) (int, error) {
	if r.pool.beforeRead != nil {
		r.pool.beforeRead(r.offset)
	}
	if r.offset >= len(r.pool.data) {
		return 0, io.EOF
	}
	if r.offset == 0 && len(buf) > 1000 {
		buf = buf[:1000]
	}
	n := copy(buf, r.pool.data[r.offset:])
	r.offset += n
	return n, nil
}

type c15SyncBuffer struct {
	mu  sync.Mutex
	buf bytes.Buffer
}

func (sb *c15SyncBuffer) Write(p []byte) (int, error) {
	sb.mu.Lock()
	defer sb.mu.Unlock()
	return sb.buf.Write(p)
}
func (sb *c15SyncBuffer) Len() int {
	sb.mu.Lock()
	defer sb.mu.Unlock()
	return sb.buf.Len()
}

func c15DiffCtx(path string, pool *c15HookPool, comp Comp) *pwr.DiffContext {
	return &pwr.DiffContext{
		Compression:     comp.settings(),
		Consumer:        &state.Consumer{},
		SourceContainer: &tlc.Container{Size: int64(len(pool.data)), Files: []*tlc.File{{Path: path, Mode: 0o644, Size: int64(len(pool.data))}}},
		Pool:            pool,
		TargetContainer: &tlc.Container{},
	}
}

type C15AbandonedCase struct {
	Seed   uint64 `json:"seed"`
	Comp   Comp   `json:"comp"`
	Paused bool   `json:"paused"` // the second diff waits while the abandoned one winds down (deterministic variant)
	Kind   string `json:"kind"`   // "after-cancelled-diff"
}

func c15Abandoned(env *Env, c *C15AbandonedCase) {
	r := wvlib.NewRng(c.Seed)
	bs := wvlib.BS
	buildA := bytes.Repeat([]byte{0xAA}, (2+r.Intn(2))*bs)
	buildB := r.Bytes((3 + r.Intn(6)) * bs)
	ref, refSig := new(bytes.Buffer), new(bytes.Buffer)
	if err := c15DiffCtx("b.bin", &c15HookPool{data: buildB}, c.Comp).WritePatch(context.Background(), ref, refSig); err != nil {
		env.R.Violate("diff-error", err.Error(), c)
		return
	}
	for round := 0; round < 4; round++ {
		patch2, sig2, err := c15AbandonedRound(buildA, buildB, c.Comp, c.Paused)
		if err != nil {
			env.R.Violate("diff-error:after-cancelled-diff", err.Error(), c)
			return
		}
		if !bytes.Equal(patch2, ref.Bytes()) || !bytes.Equal(sig2, refSig.Bytes()) {
			env.R.Violate("bytes-differ:after-cancelled-diff", fmt.Sprintf("round %d: a diff started after a cancelled one returned writes other bytes than the reference run (patch %d vs %d bytes, first difference at %d; signature equal: %v)",
				round, len(patch2), ref.Len(), firstDiffBytes(patch2, ref.Bytes()), bytes.Equal(sig2, refSig.Bytes())), c)
			return
		}
	}
	env.R.Eval(c.Seed^0xabad, true)
	env.R.Count("after-cancelled-diff", 1)
}

func c15AbandonedRound(buildA, buildB []byte, comp Comp, paused bool) (patch, sig []byte, err error) {
	bs := wvlib.BS
	ctx1, cancel1 := context.WithCancel(context.Background())
	defer cancel1()
	unstall1, eof1 := make(chan struct{}), make(chan struct{})
	var cancelOnce, eofOnce, unstallOnce sync.Once
	poolA := &c15HookPool{data: buildA}
	poolA.beforeRead = func(offset int) {
		if offset == 1000 {
			cancelOnce.Do(cancel1)
			select {
			case <-unstall1:
			case <-time.After(20 * time.Second):
			}
		}
		if offset == len(buildA) {
			eofOnce.Do(func() { close(eof1) })
		}
	}
	patch1 := &c15SyncBuffer{}
	if err := c15DiffCtx("a.bin", poolA, comp).WritePatch(ctx1, patch1, &c15SyncBuffer{}); err == nil {
		return nil, nil, fmt.Errorf("the first diff was not cancelled")
	}
	stalled2, unstall2 := make(chan struct{}), make(chan struct{})
	var stallOnce sync.Once
	poolB := &c15HookPool{data: buildB}
	poolB.beforeRead = func(offset int) {
		if offset >= bs {
			if paused {
				stallOnce.Do(func() { close(stalled2) })
				select {
				case <-unstall2:
				case <-time.After(20 * time.Second):
				}
			} else {
				unstallOnce.Do(func() { close(unstall1) })
			}
		}
	}
	if paused {
		go func() {
			<-stalled2
			unstallOnce.Do(func() { close(unstall1) })
			select {
			case <-eof1:
			case <-time.After(5 * time.Second):
			}
			deadline := time.Now().Add(3 * time.Second)
			for patch1.Len() < len(buildA) && time.Now().Before(deadline) {
				time.Sleep(time.Millisecond)
			}
			time.Sleep(20 * time.Millisecond)
			close(unstall2)
		}()
	}
	p2, s2 := new(bytes.Buffer), new(bytes.Buffer)
	err = c15DiffCtx("b.bin", poolB, comp).WritePatch(context.Background(), p2, s2)
	unstallOnce.Do(func() { close(unstall1) })
	return p2.Bytes(), s2.Bytes(), err
}
