// wvextract regenerates, from /repo's current source, the pieces of the Lean model that are tied to
// the code mechanically:
//
//   - Gen/Constants.lean : integer constants (package-level and function-local) and proto enum/field numbers
//   - Gen/Kernels.lean   : straight-line integer functions translated to Lean (Int with truncating / and %,
//     Nat for the bit-twiddling nextPowerOf2) and selected assignment right-hand sides (rolling checksum update)
//   - facts.json         : shape facts per function: conditions of its if statements and its call sequence
//
// The fragment is deliberately tiny.  Anything outside it makes the tool fail loudly, which the
// check treats as a broken tie.
package main

import (
	"bytes"
	"encoding/json"
	"flag"
	"fmt"
	"go/ast"
	"go/parser"
	"go/printer"
	"go/token"
	"os"
	"path/filepath"
	"regexp"
	"sort"
	"strconv"
	"strings"
)

var fset = token.NewFileSet()

func die(format string, a ...interface{}) {
	fmt.Fprintf(os.Stderr, "wvextract: "+format+"\n", a...)
	os.Exit(1)
}

func parseFile(repo, rel string) *ast.File {
	f, err := parser.ParseFile(fset, filepath.Join(repo, rel), nil, 0)
	if err != nil {
		die("parse %s: %v", rel, err)
	}
	return f
}

// ---------- constants

type constEnv map[string]int64

func evalConst(e ast.Expr, env constEnv, iota int64) (int64, bool) {
	switch x := e.(type) {
	case *ast.BasicLit:
		if x.Kind == token.INT {
			v, err := strconv.ParseInt(x.Value, 0, 64)
			if err != nil {
				return 0, false
			}
			return v, true
		}
	case *ast.Ident:
		if x.Name == "iota" {
			return iota, true
		}
		v, ok := env[x.Name]
		return v, ok
	case *ast.ParenExpr:
		return evalConst(x.X, env, iota)
	case *ast.CallExpr: // conversion int64(...), int32(...)
		if id, ok := x.Fun.(*ast.Ident); ok && len(x.Args) == 1 {
			switch id.Name {
			case "int", "int64", "int32", "uint32", "uint64", "uint":
				return evalConst(x.Args[0], env, iota)
			}
		}
	case *ast.BinaryExpr:
		a, ok1 := evalConst(x.X, env, iota)
		b, ok2 := evalConst(x.Y, env, iota)
		if !ok1 || !ok2 {
			return 0, false
		}
		switch x.Op {
		case token.ADD:
			return a + b, true
		case token.SUB:
			return a - b, true
		case token.MUL:
			return a * b, true
		case token.QUO:
			if b == 0 {
				return 0, false
			}
			return a / b, true
		case token.SHL:
			return a << uint(b), true
		case token.SHR:
			return a >> uint(b), true
		}
	}
	return 0, false
}

// collectConsts evaluates every integer const of a file (package level and inside functions).
func collectConsts(f *ast.File, env constEnv) {
	ast.Inspect(f, func(n ast.Node) bool {
		gd, ok := n.(*ast.GenDecl)
		if !ok || gd.Tok != token.CONST {
			return true
		}
		var lastVals []ast.Expr
		for i, sp := range gd.Specs {
			vs := sp.(*ast.ValueSpec)
			vals := vs.Values
			if len(vals) == 0 {
				vals = lastVals
			} else {
				lastVals = vals
			}
			for j, name := range vs.Names {
				if j < len(vals) {
					if v, ok := evalConst(vals[j], env, int64(i)); ok {
						env[name.Name] = v
					}
				}
			}
		}
		return true
	})
}

// ---------- expression translation

type tr struct {
	mode   string // "int" | "nat" | "u32"
	consts constEnv
	pkgFns map[string]string // Go function name -> Lean name
}

// lit: an integer literal; typed in "int" mode so that a `let x := 0` does not default to Nat
func (t *tr) lit(v int64) string {
	if t.mode == "int" {
		return fmt.Sprintf("(%d : Int)", v)
	}
	return fmt.Sprintf("%d", v)
}

func (t *tr) expr(e ast.Expr) string {
	switch x := e.(type) {
	case *ast.BasicLit:
		if x.Kind == token.INT {
			v, err := strconv.ParseInt(x.Value, 0, 64)
			if err != nil {
				die("literal %s", x.Value)
			}
			return t.lit(v)
		}
	case *ast.Ident:
		if v, ok := t.consts[x.Name]; ok {
			return t.lit(v)
		}
		return leanIdent(x.Name)
	case *ast.ParenExpr:
		return "(" + t.expr(x.X) + ")"
	case *ast.SelectorExpr:
		// sum.head -> sumHead ; pkg.Const -> const value if known
		if id, ok := x.X.(*ast.Ident); ok {
			if v, ok := t.consts[x.Sel.Name]; ok && (id.Name == "pwr" || id.Name == "wsync") {
				return t.lit(v)
			}
			return leanIdent(id.Name + strings.Title(x.Sel.Name))
		}
	case *ast.CallExpr:
		if id, ok := x.Fun.(*ast.Ident); ok {
			switch id.Name {
			case "int", "int64", "int32", "uint32", "uint64":
				if len(x.Args) == 1 {
					return t.expr(x.Args[0])
				}
			}
			if ln, ok := t.pkgFns[id.Name]; ok {
				parts := []string{ln}
				for _, a := range x.Args {
					parts = append(parts, "("+t.expr(a)+")")
				}
				return "(" + strings.Join(parts, " ") + ")"
			}
		}
	case *ast.BinaryExpr:
		a, b := t.expr(x.X), t.expr(x.Y)
		switch x.Op {
		case token.ADD:
			return "(" + a + " + " + b + ")"
		case token.SUB:
			return "(" + a + " - " + b + ")"
		case token.MUL:
			return "(" + a + " * " + b + ")"
		case token.QUO:
			if t.mode == "int" {
				return "(Int.tdiv " + a + " " + b + ")"
			}
			return "(" + a + " / " + b + ")"
		case token.REM:
			if t.mode == "int" {
				return "(Int.tmod " + a + " " + b + ")"
			}
			return "(" + a + " % " + b + ")"
		case token.SHR:
			return "(" + a + " >>> " + b + ")"
		case token.SHL:
			return "(" + a + " <<< " + b + ")"
		case token.OR:
			return "(" + a + " ||| " + b + ")"
		case token.AND:
			return "(" + a + " &&& " + b + ")"
		case token.GTR:
			return "(" + a + " > " + b + ")"
		case token.GEQ:
			return "(" + a + " ≥ " + b + ")"
		case token.LSS:
			return "(" + a + " < " + b + ")"
		case token.LEQ:
			return "(" + a + " ≤ " + b + ")"
		case token.EQL:
			return "(" + a + " = " + b + ")"
		case token.NEQ:
			return "(" + a + " ≠ " + b + ")"
		case token.LAND:
			return "(" + a + " ∧ " + b + ")"
		case token.LOR:
			return "(" + a + " ∨ " + b + ")"
		}
	}
	var buf bytes.Buffer
	printer.Fprint(&buf, fset, e)
	die("expression outside the translated fragment: %s", buf.String())
	return ""
}

func leanIdent(s string) string {
	r := strings.NewReplacer("α", "alpha", "β", "beta")
	s = r.Replace(s)
	switch s {
	case "end", "from", "at", "do", "then", "else", "if", "fun", "let", "have", "show", "open", "in":
		return s + "'"
	}
	return s
}

// stmts translates a straight-line body (assignments, if-return, return) into a Lean term.
func (t *tr) stmts(ss []ast.Stmt) string {
	if len(ss) == 0 {
		die("function body falls off the end")
	}
	s := ss[0]
	rest := ss[1:]
	switch x := s.(type) {
	case *ast.ReturnStmt:
		if len(x.Results) != 1 {
			die("multi-value return")
		}
		return t.expr(x.Results[0])
	case *ast.IfStmt:
		if x.Init != nil {
			die("if with init")
		}
		thenPart := t.stmts(x.Body.List)
		var elsePart string
		if x.Else != nil {
			if blk, ok := x.Else.(*ast.BlockStmt); ok {
				elsePart = t.stmts(append(append([]ast.Stmt{}, blk.List...), rest...))
			} else {
				die("else-if")
			}
		} else {
			elsePart = t.stmts(rest)
		}
		// a then-branch that does not return continues with rest
		return "(if " + t.expr(x.Cond) + " then " + thenPart + " else " + elsePart + ")"
	case *ast.AssignStmt:
		if len(x.Lhs) != 1 || len(x.Rhs) != 1 {
			die("multi assign")
		}
		id, ok := x.Lhs[0].(*ast.Ident)
		if !ok {
			die("assign to non-ident")
		}
		name := leanIdent(id.Name)
		var rhs string
		switch x.Tok {
		case token.DEFINE, token.ASSIGN:
			rhs = t.expr(x.Rhs[0])
		case token.OR_ASSIGN:
			rhs = "(" + name + " ||| " + t.expr(x.Rhs[0]) + ")"
		case token.ADD_ASSIGN:
			rhs = "(" + name + " + " + t.expr(x.Rhs[0]) + ")"
		case token.SUB_ASSIGN:
			rhs = "(" + name + " - " + t.expr(x.Rhs[0]) + ")"
		default:
			die("assign op %s", x.Tok)
		}
		return "(let " + name + " := " + rhs + "; " + t.stmts(rest) + ")"
	case *ast.IncDecStmt:
		id, ok := x.X.(*ast.Ident)
		if !ok {
			die("incdec of non-ident")
		}
		name := leanIdent(id.Name)
		op := " + 1"
		if x.Tok == token.DEC {
			op = " - 1"
		}
		return "(let " + name + " := " + name + op + "; " + t.stmts(rest) + ")"
	case *ast.DeclStmt:
		// var x = e
		gd := x.Decl.(*ast.GenDecl)
		if gd.Tok == token.VAR && len(gd.Specs) == 1 {
			vs := gd.Specs[0].(*ast.ValueSpec)
			if len(vs.Names) == 1 && len(vs.Values) == 1 {
				return "(let " + leanIdent(vs.Names[0].Name) + " := " + t.expr(vs.Values[0]) + "; " + t.stmts(rest) + ")"
			}
		}
	}
	var buf bytes.Buffer
	printer.Fprint(&buf, fset, s)
	die("statement outside the translated fragment: %s", buf.String())
	return ""
}

func findFunc(f *ast.File, name string) *ast.FuncDecl {
	for _, d := range f.Decls {
		if fd, ok := d.(*ast.FuncDecl); ok {
			full := fd.Name.Name
			if fd.Recv != nil && len(fd.Recv.List) == 1 {
				var buf bytes.Buffer
				printer.Fprint(&buf, fset, fd.Recv.List[0].Type)
				full = strings.TrimPrefix(buf.String(), "*") + "." + full
			}
			if full == name {
				return fd
			}
		}
	}
	return nil
}

func (t *tr) fn(f *ast.File, goName, leanName, typ string) string {
	fd := findFunc(f, goName)
	if fd == nil {
		die("function %s not found", goName)
	}
	var params []string
	for _, fl := range fd.Type.Params.List {
		for _, n := range fl.Names {
			params = append(params, "("+leanIdent(n.Name)+" : "+typ+")")
		}
	}
	body := t.stmts(fd.Body.List)
	return fmt.Sprintf("def %s %s : %s :=\n  %s\n", leanName, strings.Join(params, " "), typ, body)
}

// assignRHS finds the (last) assignment `lhs = e` inside function goName and translates e.
func (t *tr) assignRHS(f *ast.File, goName, lhs string) string {
	fd := findFunc(f, goName)
	if fd == nil {
		die("function %s not found", goName)
	}
	var found ast.Expr
	ast.Inspect(fd.Body, func(n ast.Node) bool {
		if as, ok := n.(*ast.AssignStmt); ok && len(as.Lhs) == 1 && len(as.Rhs) == 1 && as.Tok == token.ASSIGN {
			if id, ok := as.Lhs[0].(*ast.Ident); ok && id.Name == lhs {
				found = as.Rhs[0]
			}
		}
		return true
	})
	if found == nil {
		die("assignment to %s not found in %s", lhs, goName)
	}
	return t.expr(found)
}

// ---------- slices: a contiguous run of straight-line statements inside a larger function

var strictSlice = true

// assignedVars: identifiers assigned (not defined) in a statement list, nested ifs included; in order of appearance.
func assignedVars(ss []ast.Stmt, defined map[string]bool, out *[]string) {
	add := func(n string) {
		if defined[n] {
			return
		}
		for _, o := range *out {
			if o == n {
				return
			}
		}
		*out = append(*out, n)
	}
	for _, s := range ss {
		switch x := s.(type) {
		case *ast.AssignStmt:
			for _, l := range x.Lhs {
				if id, ok := l.(*ast.Ident); ok {
					if x.Tok == token.DEFINE {
						defined[id.Name] = true
					} else {
						add(id.Name)
					}
				} else if strictSlice {
					die("slice: assignment to %s", exprString(l))
				}
			}
		case *ast.IncDecStmt:
			if id, ok := x.X.(*ast.Ident); ok {
				add(id.Name)
			}
		case *ast.IfStmt:
			inner := map[string]bool{}
			for k := range defined {
				inner[k] = true
			}
			assignedVars(x.Body.List, inner, out)
			if blk, ok := x.Else.(*ast.BlockStmt); ok {
				assignedVars(blk.List, inner, out)
			} else if ei, ok := x.Else.(*ast.IfStmt); ok {
				assignedVars([]ast.Stmt{ei}, inner, out)
			}
		}
	}
}

// seq translates statements that do not return into nested lets ending in `result`.
func (t *tr) seq(ss []ast.Stmt, result string) string {
	if len(ss) == 0 {
		return result
	}
	rest := ss[1:]
	switch x := ss[0].(type) {
	case *ast.IfStmt:
		if x.Init != nil {
			die("slice: if with init")
		}
		var vars []string
		assignedVars([]ast.Stmt{x}, map[string]bool{}, &vars)
		if len(vars) == 0 {
			die("slice: if without effect: %s", exprString(x.Cond))
		}
		for i := range vars {
			vars[i] = leanIdent(vars[i])
		}
		tuple := vars[0]
		if len(vars) > 1 {
			tuple = "(" + strings.Join(vars, ", ") + ")"
		}
		thenPart := t.seq(x.Body.List, tuple)
		elsePart := tuple
		if blk, ok := x.Else.(*ast.BlockStmt); ok {
			elsePart = t.seq(blk.List, tuple)
		} else if ei, ok := x.Else.(*ast.IfStmt); ok {
			elsePart = t.seq([]ast.Stmt{ei}, tuple)
		}
		return "(let " + tuple + " := (if " + t.expr(x.Cond) + " then " + thenPart + " else " + elsePart + "); " + t.seq(rest, result) + ")"
	case *ast.AssignStmt, *ast.IncDecStmt, *ast.DeclStmt:
		// reuse stmts for the binding itself: translate `[s; return RESULT]` with a placeholder
		ph := &ast.ReturnStmt{Results: []ast.Expr{&ast.Ident{Name: "\x00RESULT"}}}
		one := t.stmts([]ast.Stmt{x, ph})
		return strings.Replace(one, "\x00RESULT", t.seq(rest, result), 1)
	}
	die("slice: statement outside the translated fragment: %s", exprString(nil))
	return ""
}

// slice finds, in function goName, the statement list that defines `start` (with :=), takes the statements from
// there to the last one of that list that assigns `end` (directly or inside an if), drops those that `skip`
// accepts, and translates them to a Lean term ending in `result`.
func (t *tr) slice(f *ast.File, goName, start, end, result string, skip func(ast.Stmt) bool) string {
	fd := findFunc(f, goName)
	if fd == nil {
		die("function %s not found", goName)
	}
	var out string
	found := false
	ast.Inspect(fd.Body, func(n ast.Node) bool {
		blk, ok := n.(*ast.BlockStmt)
		var list []ast.Stmt
		if ok {
			list = blk.List
		} else if cc, ok := n.(*ast.CaseClause); ok {
			list = cc.Body
		} else {
			return true
		}
		if found {
			return false
		}
		si := -1
		for i, s := range list {
			if as, ok := s.(*ast.AssignStmt); ok && as.Tok == token.DEFINE && len(as.Lhs) == 1 && exprString(as.Lhs[0]) == start {
				si = i
				break
			}
		}
		if si < 0 {
			return true
		}
		ei := -1
		for i := si; i < len(list); i++ {
			var vars []string
			strictSlice = false
			assignedVars([]ast.Stmt{list[i]}, map[string]bool{}, &vars)
			strictSlice = true
			if as, ok := list[i].(*ast.AssignStmt); ok && as.Tok == token.DEFINE {
				for _, l := range as.Lhs {
					vars = append(vars, exprString(l))
				}
			}
			for _, v := range vars {
				if v == end {
					ei = i
				}
			}
		}
		if ei < 0 {
			die("slice %s: no statement assigning %s after %s", goName, end, start)
		}
		var keep []ast.Stmt
		for _, s := range list[si : ei+1] {
			if skip != nil && skip(s) {
				continue
			}
			keep = append(keep, s)
		}
		out = t.seq(keep, result)
		found = true
		return false
	})
	if !found {
		die("slice %s: definition of %s not found", goName, start)
	}
	return out
}

// ---------- shape facts

var noiseCalls = map[string]bool{"Debugf": true, "Infof": true, "Warnf": true, "Errorf": true, "WithStack": true,
	"Sprintf": true, "debugf": true, "Wrapf": true, "WithMessage": true, "New": true, "Cause": true,
	"FromSlash": true, "Join": true, "ProgressLabel": true, "Progress": true, "FormatBytes": true, "len": true,
	"int64": true, "int": true, "int32": true, "uint32": true, "append": true, "make": true, "FileMode": true, "float64": true}

func exprString(e ast.Expr) string {
	var buf bytes.Buffer
	printer.Fprint(&buf, fset, e)
	return strings.Join(strings.Fields(buf.String()), " ")
}

func shapeFacts(fd *ast.FuncDecl) map[string]interface{} {
	var conds, calls, sels, cmps, rets, assigns, chans, gos []string
	depth := 0
	var stack []ast.Node
	ast.Inspect(fd.Body, func(n ast.Node) bool {
		if n == nil {
			if _, ok := stack[len(stack)-1].(*ast.BlockStmt); ok {
				depth--
			}
			stack = stack[:len(stack)-1]
			return true
		}
		stack = append(stack, n)
		switch x := n.(type) {
		case *ast.GoStmt:
			// which goroutines are started (transition systems are written from these)
			gos = append(gos, "go "+strings.Join(strings.Fields(exprString(x.Call.Fun)), " ")[:min(40, len(strings.Join(strings.Fields(exprString(x.Call.Fun)), " ")))])
		case *ast.DeferStmt:
			gos = append(gos, "defer "+strings.Join(strings.Fields(exprString(x.Call.Fun)), " ")[:min(40, len(strings.Join(strings.Fields(exprString(x.Call.Fun)), " ")))])
		case *ast.SendStmt:
			gos = append(gos, "send "+exprString(x.Chan))
		case *ast.BlockStmt:
			depth++
		case *ast.AssignStmt:
			// which state is written, and how deeply nested (an assignment moved into or out of a branch shows)
			for _, l := range x.Lhs {
				ls := exprString(l)
				if ls == "_" || ls == "err" || ls == "ok" {
					continue
				}
				assigns = append(assigns, fmt.Sprintf("d%d:%s%s", depth, ls, x.Tok.String()))
			}
		case *ast.IncDecStmt:
			assigns = append(assigns, fmt.Sprintf("d%d:%s%s", depth, exprString(x.X), x.Tok.String()))
		}
		switch x := n.(type) {
		case *ast.BinaryExpr:
			switch x.Op {
			case token.EQL, token.NEQ, token.LSS, token.LEQ, token.GTR, token.GEQ:
				cmps = append(cmps, exprString(x))
			}
		case *ast.ReturnStmt:
			var rs []string
			for _, r := range x.Results {
				rs = append(rs, exprString(r))
			}
			rets = append(rets, strings.Join(rs, ", "))
		case *ast.IfStmt:
			conds = append(conds, exprString(x.Cond))
		case *ast.ForStmt:
			if x.Cond != nil {
				conds = append(conds, "for "+exprString(x.Cond))
			}
		case *ast.CommClause:
			if x.Comm == nil {
				sels = append(sels, "default")
			} else {
				var buf bytes.Buffer
				printer.Fprint(&buf, fset, x.Comm)
				sels = append(sels, strings.Join(strings.Fields(buf.String()), " "))
			}
		case *ast.CallExpr:
			if id, ok := x.Fun.(*ast.Ident); ok && id.Name == "make" && len(x.Args) >= 1 {
				if _, isChan := x.Args[0].(*ast.ChanType); isChan {
					// channel capacities are parameters of the transition systems
					chans = append(chans, exprString(x))
				}
			}
			name := ""
			switch f := x.Fun.(type) {
			case *ast.Ident:
				name = f.Name
			case *ast.SelectorExpr:
				name = f.Sel.Name
			}
			if name != "" && !noiseCalls[name] {
				calls = append(calls, name)
			}
		}
		return true
	})
	return map[string]interface{}{"conds": conds, "calls": calls, "select": sels, "cmps": cmps, "returns": rets, "assigns": assigns, "chans": chans, "conc": gos}
}

// ---------- proto numbers

func protoNumbers(repo, rel string, out map[string]int64) {
	b, err := os.ReadFile(filepath.Join(repo, rel))
	if err != nil {
		die("%v", err)
	}
	re := regexp.MustCompile(`(?m)^\s*(?:(?:[A-Za-z0-9_.]+)\s+)?([A-Za-z_][A-Za-z0-9_]*)\s*=\s*([0-9]+)\s*;`)
	// track the enclosing message/enum name
	scopeRe := regexp.MustCompile(`(?m)^\s*(message|enum)\s+([A-Za-z0-9_]+)\s*\{`)
	lines := strings.Split(string(b), "\n")
	var stack []string
	for _, ln := range lines {
		if m := scopeRe.FindStringSubmatch(ln); m != nil {
			stack = append(stack, m[2])
			if strings.Contains(ln, "}") {
				stack = stack[:len(stack)-1]
			}
			continue
		}
		if m := re.FindStringSubmatch(ln); m != nil && len(stack) > 0 {
			v, _ := strconv.ParseInt(m[2], 10, 64)
			out[strings.Join(stack, "_")+"_"+m[1]] = v
		}
		if strings.Contains(ln, "}") && len(stack) > 0 {
			stack = stack[:len(stack)-1]
		}
	}
}

func main() {
	repo := flag.String("repo", "/repo", "repository root")
	out := flag.String("out", "", "directory for generated Lean files")
	factsPath := flag.String("facts", "", "facts.json output")
	flag.Parse()
	if *out == "" {
		die("--out required")
	}
	os.MkdirAll(*out, 0o755)

	// ---- constants
	type cfile struct{ rel, prefix string }
	cfiles := []cfile{
		{"pwr/constants.go", "pwr"}, {"wsync/algo.go", "wsync"}, {"wsync/types.go", "wsync"},
		{"pwr/overlay/overlay_writer.go", "overlay"}, {"pwr/overlay/overlay_patch.go", "overlay"},
		{"pwr/validator.go", "pwr"}, {"pwr/bowl/bowl_fresh.go", "bowl"}, {"ctxcopy/ctxcopy.go", "ctxcopy"},
		{"bsdiff/patch.go", "bsdiff"}, {"bsdiff/diff.go", "bsdiff"},
	}
	all := map[string]int64{}
	perPkg := map[string]constEnv{}
	for _, cf := range cfiles {
		f := parseFile(*repo, cf.rel)
		env := perPkg[cf.prefix]
		if env == nil {
			env = constEnv{}
			perPkg[cf.prefix] = env
		}
		collectConsts(f, env)
	}
	for p, env := range perPkg {
		for k, v := range env {
			all[p+"_"+k] = v
		}
	}
	// literals that are not named constants in the source
	findLit := func(rel, fn string, pick func(ast.Node) (string, int64, bool)) {
		f := parseFile(*repo, rel)
		fd := findFunc(f, fn)
		if fd == nil {
			die("function %s not found in %s", fn, rel)
		}
		hit := false
		ast.Inspect(fd.Body, func(n ast.Node) bool {
			if n == nil {
				return true
			}
			if k, v, ok := pick(n); ok {
				all[k] = v
				hit = true
			}
			return true
		})
		if !hit {
			die("literal not found in %s:%s", rel, fn)
		}
	}
	// wound channel capacity: vctx.Wounds = make(chan *Wound, 1024)
	findLit("pwr/validator.go", "ValidatorContext.Validate", func(n ast.Node) (string, int64, bool) {
		as, ok := n.(*ast.AssignStmt)
		if !ok || len(as.Lhs) != 1 || exprString(as.Lhs[0]) != "vctx.Wounds" {
			return "", 0, false
		}
		if c, ok := as.Rhs[0].(*ast.CallExpr); ok && len(c.Args) == 2 {
			if v, ok := evalConst(c.Args[1], constEnv{}, 0); ok {
				return "pwr_woundChanCap", v, true
			}
		}
		return "", 0, false
	})
	// bsdiff scan block size and worker factor
	findLit("bsdiff/diff.go", "DiffContext.Do", func(n ast.Node) (string, int64, bool) {
		as, ok := n.(*ast.AssignStmt)
		if !ok || len(as.Lhs) != 1 || as.Tok != token.DEFINE {
			return "", 0, false
		}
		switch exprString(as.Lhs[0]) {
		case "blockSize":
			if v, ok := evalConst(as.Rhs[0], constEnv{}, 0); ok {
				return "bsdiff_scanBlockSize", v, true
			}
		case "numWorkers":
			if be, ok := as.Rhs[0].(*ast.BinaryExpr); ok && be.Op == token.MUL {
				if v, ok := evalConst(be.Y, constEnv{}, 0); ok {
					return "bsdiff_workerFactor", v, true
				}
			}
		}
		return "", 0, false
	})
	// wire reader initial buffer
	findLit("wire/read_context.go", "NewReadContext", func(n ast.Node) (string, int64, bool) {
		c, ok := n.(*ast.CallExpr)
		if !ok || exprString(c.Fun) != "make" || len(c.Args) != 2 {
			return "", 0, false
		}
		if v, ok := evalConst(c.Args[1], constEnv{}, 0); ok {
			return "wire_initialBuf", v, true
		}
		return "", 0, false
	})
	// ctxcopy default buffer
	findLit("ctxcopy/ctxcopy.go", "DoBuffer", func(n ast.Node) (string, int64, bool) {
		c, ok := n.(*ast.CallExpr)
		if !ok || exprString(c.Fun) != "make" || len(c.Args) != 2 {
			return "", 0, false
		}
		if v, ok := evalConst(c.Args[1], constEnv{}, 0); ok {
			return "ctxcopy_bufSize", v, true
		}
		return "", 0, false
	})
	protoNumbers(*repo, "pwr/pwr.proto", all)
	protoNumbers(*repo, "bsdiff/bsdiff.proto", all)
	protoNumbers(*repo, "pwr/overlay/overlay.proto", all)

	keys := make([]string, 0, len(all))
	for k := range all {
		keys = append(keys, k)
	}
	sort.Strings(keys)
	var cb strings.Builder
	cb.WriteString("/- GENERATED by wvextract from /repo on every check run.  Do not edit. -/\nnamespace Wharf.Gen\n\n")
	for _, k := range keys {
		if all[k] < 0 {
			continue
		}
		fmt.Fprintf(&cb, "def %s : Nat := %d\n", leanIdent(k), all[k])
	}
	cb.WriteString("\nend Wharf.Gen\n")
	writeIfChanged(filepath.Join(*out, "Constants.lean"), cb.String())

	// ---- kernels
	var kb strings.Builder
	kb.WriteString("/- GENERATED by wvextract from /repo on every check run.  Do not edit. -/\nnamespace Wharf.Gen\n\n")
	{
		f := parseFile(*repo, "pwr/diff.go")
		t := &tr{mode: "int", consts: perPkg["pwr"], pkgFns: map[string]string{}}
		kb.WriteString("/-- pwr.ComputeNumBlocks -/\n" + t.fn(f, "ComputeNumBlocks", "computeNumBlocks", "Int") + "\n")
		kb.WriteString("/-- pwr.ComputeBlockSize -/\n" + t.fn(f, "ComputeBlockSize", "computeBlockSize", "Int") + "\n")
	}
	{
		f := parseFile(*repo, "wire/read_context.go")
		t := &tr{mode: "nat", consts: constEnv{}, pkgFns: map[string]string{}}
		kb.WriteString("/-- wire.nextPowerOf2 (on naturals; the Go code is only reached with v ≥ 1) -/\n" + t.fn(f, "nextPowerOf2", "nextPowerOf2", "Nat") + "\n")
	}
	{
		f := parseFile(*repo, "wsync/algo.go")
		t := &tr{mode: "u32", consts: perPkg["wsync"], pkgFns: map[string]string{}}
		b1 := t.assignRHS(f, "Context.ComputeDiff", "β1")
		b2 := t.assignRHS(f, "Context.ComputeDiff", "β2")
		b := t.assignRHS(f, "Context.ComputeDiff", "β")
		fmt.Fprintf(&kb, "/-- rolling update of β1 in ComputeDiff -/\ndef rollBeta1 (beta1 alphaPop alphaPush : UInt32) : UInt32 :=\n  %s\n\n", b1)
		fmt.Fprintf(&kb, "/-- rolling update of β2 in ComputeDiff (`sumHead - sumTail` is the window length) -/\ndef rollBeta2 (beta1 beta2 alphaPop : UInt32) (sumHead sumTail : UInt32) : UInt32 :=\n  %s\n\n", b2)
		fmt.Fprintf(&kb, "/-- β from β1, β2 in ComputeDiff -/\ndef rollBeta (beta1 beta2 : UInt32) : UInt32 :=\n  %s\n\n", b)
	}
	{
		// wsync.ApplySingleFull, OpBlockRange: number of bytes a block range stands for
		f := parseFile(*repo, "wsync/algo.go")
		t := &tr{mode: "int", consts: perPkg["wsync"], pkgFns: map[string]string{}}
		fmt.Fprintf(&kb, "/-- wsync.ApplySingleFull, case OpBlockRange: `fixedSize := …` through `opSize := …` -/\ndef applyRangeSize (blockSize fileSize opBlockIndex opBlockSpan : Int) : Int :=\n  %s\n\n",
			t.slice(f, "Context.ApplySingleFull", "fixedSize", "opSize", "opSize", nil))
	}
	{
		// pwr.ReadSignature: ShortSize re-derived for block blockIndex of a file of f.Size bytes
		f := parseFile(*repo, "pwr/sign.go")
		t := &tr{mode: "int", consts: perPkg["pwr"], pkgFns: map[string]string{}}
		fmt.Fprintf(&kb, "/-- pwr.ReadSignature: `shortSize := int32(0)` and the `if` that follows -/\ndef sigShortSize (blockIndex fSize : Int) : Int :=\n  %s\n\n",
			t.slice(f, "ReadSignature", "shortSize", "shortSize", "shortSize", nil))
	}
	{
		// bsdiff.DiffContext.Do: how the new file is cut into scan blocks
		f := parseFile(*repo, "bsdiff/diff.go")
		t := &tr{mode: "int", consts: constEnv{}, pkgFns: map[string]string{}}
		fmt.Fprintf(&kb, "/-- bsdiff.DiffContext.Do: `blockSize := 128 * 1024` through the `if numBlocks < partitions` block -/\ndef scanPlan (nbuflen partitions : Int) : Int × Int :=\n  %s\n\n",
			t.slice(f, "DiffContext.Do", "blockSize", "numBlocks", "(blockSize, numBlocks)", nil))
		fmt.Fprintf(&kb, "/-- bsdiff.DiffContext.Do, scan worker: `boundary := …` through the `if blockIndex == numBlocks-1` block -/\ndef scanBlockExtent (blockSize numBlocks nbuflen blockIndex : Int) : Int × Int :=\n  %s\n\n",
			t.slice(f, "DiffContext.Do", "boundary", "realBlockSize", "(boundary, realBlockSize)", nil))
	}
	{
		// lrufile.Read: one turn of the loop, without the chunk load and the copy
		f := parseFile(*repo, "bsdiff/lrufile/lrufile.go")
		t := &tr{mode: "int", consts: constEnv{}, pkgFns: map[string]string{}}
		skip := func(s ast.Stmt) bool {
			if as, ok := s.(*ast.AssignStmt); ok && exprString(as.Lhs[0]) == "chunk" {
				return true
			}
			if is, ok := s.(*ast.IfStmt); ok && exprString(is.Cond) == "err != nil" {
				return true
			}
			return false
		}
		fmt.Fprintf(&kb, "/-- lrufile.lruFile.Read, loop body: `chunkIndex := …` through the `if end > chunkSize` block (chunk load skipped) -/\ndef lruTurn (lfOffset lfChunkSize lfSize remaining : Int) (eof : Bool) : Int × Int × Int × Bool :=\n  %s\n\n",
			t.slice(f, "lruFile.Read", "chunkIndex", "end", "(chunkIndex, start, end', eof)", skip))
	}
	{
		// safekeeper.validateBlock: which block an offset falls into and where that block starts
		f := parseFile(*repo, "pwr/safekeeper.go")
		t := &tr{mode: "int", consts: perPkg["pwr"], pkgFns: map[string]string{}}
		fd := findFunc(f, "safeKeeper.validateBlock")
		if fd == nil {
			die("safeKeeper.validateBlock not found")
		}
		var bi, bo ast.Expr
		ast.Inspect(fd.Body, func(n ast.Node) bool {
			if as, ok := n.(*ast.AssignStmt); ok && as.Tok == token.DEFINE && len(as.Lhs) == 1 {
				switch exprString(as.Lhs[0]) {
				case "blockIndex":
					bi = as.Rhs[0]
				case "blockOffset":
					bo = as.Rhs[0]
				}
			}
			return true
		})
		if bi == nil || bo == nil {
			die("safeKeeper.validateBlock: blockIndex / blockOffset definitions not found")
		}
		fmt.Fprintf(&kb, "/-- safeKeeper.validateBlock: `blockIndex := …` -/\ndef skBlockIndex (skrOffset : Int) : Int :=\n  %s\n\n", t.expr(bi))
		fmt.Fprintf(&kb, "/-- safeKeeper.validateBlock: `blockOffset := …` -/\ndef skBlockOffset (blockIndex : Int) : Int :=\n  %s\n\n", t.expr(bo))
	}
	kb.WriteString("end Wharf.Gen\n")
	writeIfChanged(filepath.Join(*out, "Kernels.lean"), kb.String())

	// ---- shape facts
	type ff struct{ rel, fn string }
	ffs := []ff{
		{"wsync/algo.go", "Context.ComputeDiff"}, {"wsync/algo.go", "Context.ApplySingleFull"}, {"wsync/algo.go", "makeOperationCleaner"},
		{"wsync/hashes.go", "Context.findUniqueHash"}, {"wsync/hashes.go", "Context.CreateSignature"}, {"wsync/hashes.go", "βhash"},
		{"splitfunc/splitfunc.go", "New"},
		{"pwr/diff.go", "DiffContext.WritePatch"}, {"pwr/diff.go", "makeOpsWriter"},
		{"pwr/sign.go", "ReadSignature"}, {"wsync/block_library.go", "NewBlockLibrary"}, {"wsync/hashes.go", "Context.HashBlock"}, {"pwr/hashinfo.go", "ComputeHashInfo"},
		{"pwr/blockvalidator.go", "blockValidator.ValidateAsWound"}, {"pwr/blockvalidator.go", "blockValidator.ValidateAsError"},
		{"pwr/drip/dripwriter.go", "Writer.Write"}, {"pwr/drip/dripwriter.go", "Writer.Close"},
		{"pwr/validatingpool.go", "ValidatingPool.GetWriter"},
		{"pwr/validator.go", "ValidatorContext.Validate"}, {"pwr/validator.go", "ValidatorContext.validate"},
		{"pwr/wounds.go", "AggregateWounds"}, {"pwr/wounds.go", "WoundsGuardian.Do"}, {"pwr/wounds.go", "WoundsWriter.Do"}, {"pwr/wounds.go", "WoundsPrinter.Do"},
		{"pwr/archive_healer.go", "ArchiveHealer.Do"}, {"pwr/archive_healer.go", "ArchiveHealer.heal"}, {"pwr/archive_healer.go", "ArchiveHealer.healOne"}, {"pwr/healer.go", "NewHealer"},
		{"pwr/safekeeper.go", "safeKeeper.validateBlock"}, {"pwr/safekeeper.go", "safeKeeperReader.Read"}, {"pwr/safekeeper.go", "safeKeeper.getBlockValidator"},
		{"pwr/patcher/patcher.go", "savingPatcher.Resume"}, {"pwr/patcher/patcher.go", "savingPatcher.skipFile"},
		{"pwr/patcher/patcher_rsync.go", "savingPatcher.processRsync"}, {"pwr/patcher/patcher_rsync.go", "savingPatcher.isFullFileOp"}, {"pwr/patcher/patcher_rsync.go", "savingPatcher.makeWop"},
		{"pwr/patcher/patcher_bsdiff.go", "savingPatcher.processBsdiff"},
		{"pwr/bowl/bowl_fresh.go", "freshBowl.Transpose"}, {"pwr/bowl/bowl_fresh.go", "freshEntryWriter.Resume"},
		{"pwr/bowl/bowl_overlay.go", "overlayBowl.Commit"}, {"pwr/bowl/bowl_overlay.go", "overlayBowl.GetWriter"}, {"pwr/bowl/bowl_overlay.go", "overlayBowl.Transpose"},
		{"pwr/bowl/bowl_overlay.go", "overlayBowl.applyTranspositions"}, {"pwr/bowl/bowl_overlay.go", "overlayBowl.move"}, {"pwr/bowl/bowl_overlay.go", "overlayBowl.copy"},
		{"pwr/bowl/bowl_overlay.go", "overlayBowl.applyMoves"}, {"pwr/bowl/bowl_overlay.go", "overlayBowl.applyOverlays"}, {"pwr/bowl/bowl_overlay.go", "overlayBowl.deleteGhosts"},
		{"pwr/bowl/bowl_overlay.go", "overlayBowl.ensureDirs"}, {"pwr/bowl/bowl_overlay.go", "overlayBowl.ensureSymlinks"}, {"pwr/bowl/bowl_overlay.go", "detectGhosts"},
		{"pwr/bowl/bowl_overlay.go", "overlayEntryWriter.Resume"}, {"pwr/bowl/bowl_overlay.go", "overlayEntryWriter.Save"},
		{"pwr/overlay/overlay_writer.go", "overlayProcessor.write"}, {"pwr/overlay/overlay_writer.go", "overlayProcessor.Write"}, {"pwr/overlay/overlay_patch.go", "OverlayPatchContext.Patch"}, {"pwr/overlay/overlay_writer.go", "NewOverlayWriter"}, {"pwr/overlay/overlay_writer.go", "overlayWriter.Flush"}, {"pwr/overlay/overlay_writer.go", "overlayWriter.Finalize"},
		{"pwr/rediff/rediff.go", "context.analyzePatch"}, {"pwr/rediff/rediff.go", "context.Optimize"},
		{"bsdiff/diff.go", "DiffContext.Do"}, {"bsdiff/diff.go", "DiffContext.writeMessages"}, {"bsdiff/patch.go", "IndividualPatchContext.Apply"}, {"bsdiff/patch.go", "PatchContext.Patch"},
		{"bsdiff/psa.go", "NewPSA"}, {"bsdiff/psa.go", "PSA.search"}, {"bsdiff/adder_reader.go", "AdderReader.Read"},
		{"bsdiff/lrufile/lrufile.go", "lruFile.Read"}, {"bsdiff/lrufile/lrufile.go", "lruFile.getChunk"}, {"bsdiff/lrufile/lrufile.go", "lruFile.Seek"}, {"bsdiff/lrufile/lrufile.go", "lruFile.Reset"},
		{"wire/read_context.go", "ReadContext.ReadMessage"}, {"wire/read_context.go", "ReadContext.Resume"}, {"wire/read_context.go", "ReadContext.WantSave"}, {"wire/read_context.go", "ReadContext.PopCheckpoint"},
		{"wire/read_context.go", "countingReader.ReadByte"}, {"wire/read_context.go", "countingReader.Read"}, {"wire/read_context.go", "discardByRead"}, {"wire/read_context.go", "ReadContext.ExpectMagic"},
		{"wire/write_context.go", "WriteContext.WriteMessage"}, {"pwr/compression.go", "DecompressWire"}, {"pwr/compression.go", "CompressWire"},
		{"archiver/zip.go", "ExtractZip"}, {"archiver/zip.go", "CompressZip"}, {"archiver/archiver.go", "Mkdir"}, {"archiver/archiver.go", "Symlink"}, {"archiver/archiver.go", "CopyFile"},
		{"archiver/tar.go", "ExtractTar"}, {"archiver/tar.go", "CompressTar"}, {"archiver/containerarchiver/zip.go", "CompressZip"},
		{"multiread/multiread.go", "multiread.Do"}, {"taskgroup/taskgroup.go", "Do"}, {"ctxcopy/ctxcopy.go", "DoBuffer"},
		{"pwr/patcher/patcher.go", "savingPatcher.processFile"}, {"pwr/patcher/simple.go", "PatchFresh"},
		{"pwr/bowl/bowl_pool.go", "poolBowl.Transpose"}, {"pwr/bowl/bowl_pool.go", "poolBowl.GetWriter"}, {"pwr/bowl/bowl_pool.go", "poolEntryWriter.Close"},
		{"bsdiff/patch.go", "PatchContext.NewIndividualPatchContext"}, {"compressors/gzip/gzip.go", "gzipCompressor.Apply"}, {"decompressors/gzip/gzip.go", "gzipDecompressor.Apply"},
		{"compressors/cbrotli/cbrotli.go", "brotliCompressor.Apply"}, {"wire/write_context.go", "WriteContext.Close"}, {"wire/write_context.go", "WriteContext.WriteMagic"},
		{"pwr/validator.go", "IsNotExist"}, {"pwr/bowl/bowl_overlay.go", "isBelowAny"}, {"pwr/bowl/bowl_overlay.go", "overlayBowl.moveSourcesAside"}, {"pwr/bowl/bowl_overlay.go", "overlayBowl.pathsInUse"}, {"pwr/bowl/bowl_fresh.go", "freshEntryWriter.Save"}, {"pwr/bowl/bowl_fresh.go", "freshEntryWriter.Write"},
		{"pwr/safekeeper.go", "safeKeeper.Close"}, {"pwr/safekeeper.go", "NewSafeKeeper"}, {"wsync/algo.go", "NewContext"},
	}
	facts := map[string]interface{}{}
	cache := map[string]*ast.File{}
	for _, x := range ffs {
		f := cache[x.rel]
		if f == nil {
			f = parseFile(*repo, x.rel)
			cache[x.rel] = f
		}
		fd := findFunc(f, x.fn)
		if fd == nil {
			// a vanished function is itself a fact
			facts[x.rel+":"+x.fn] = "missing"
			continue
		}
		facts[x.rel+":"+x.fn] = shapeFacts(fd)
	}
	facts["constants"] = all
	if *factsPath != "" {
		b, _ := json.MarshalIndent(facts, "", " ")
		os.WriteFile(*factsPath, b, 0o644)
	}
}

func writeIfChanged(path, content string) {
	if old, err := os.ReadFile(path); err == nil && string(old) == content {
		return
	}
	if err := os.WriteFile(path, []byte(content), 0o644); err != nil {
		die("%v", err)
	}
}
