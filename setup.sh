#!/bin/sh
# Build the framework from files on disk only (offline): Lean model + proofs + driver, Go harness.
set -e
cd "$(dirname "$0")"
export GOFLAGS=-mod=mod GOPROXY=off
unset GOTOOLCHAIN GOSUMDB
mkdir -p harness/bin evidence replays
(cd harness && go build -o bin/wvextract ./cmd/wvextract && ./bin/wvextract --repo /repo --out ../lean/Wharf/Gen --facts bin/facts.json)
(cd lean && lake build)
(cd harness && go build -o bin/wv ./cmd/wv)
echo setup done
