#!/bin/sh
# confirm_seed.sh <ID> <demo file (in /tmp/seed/<ID>-out)> <package dir> <-run pattern>
# Confirms, in a FRESH scratch worktree of /repo: the change applies, builds, the full existing suite passes with
# it, the demonstration fails with it and passes without it. Then checks whether ./check <ID> catches it.
set -u
ID=$1; DEMO=$2; PKG=$3; RUN=$4
export GOFLAGS=-mod=mod GOPROXY=off
WT=/tmp/confirm-$ID
rm -rf $WT; git -C /repo worktree prune; git -C /repo worktree add -q --detach $WT HEAD || exit 2
OUT=${SEEDROOT:-/tmp/seed}/$ID-out
cd $WT && git apply $OUT/patch.diff || { echo "APPLY-FAILED"; exit 2; }
if git diff --name-only | grep -q '_test.go'; then echo "TOUCHES-TESTS"; fi
go build ./... || { echo "BUILD-FAILED"; exit 2; }
echo "== full suite with the change"
go test -vet=off -count=1 ./... 2>&1 | grep -v "no test files" | tail -25
cp $OUT/$DEMO $WT/$PKG/
echo "== demo WITH change (expect FAIL)"
go test -vet=off -count=1 -run "$RUN" ./$PKG/ 2>&1 | tail -4
git apply -R $OUT/patch.diff
echo "== demo WITHOUT change (expect ok)"
go test -vet=off -count=1 -run "$RUN" ./$PKG/ 2>&1 | tail -3
cd /; git -C /repo worktree remove --force $WT
