#!/bin/sh
# coverage.sh [tier]: which statements of /repo do the correspondence runs execute?  Builds the harness with
# `go build -cover` over the wharf packages, runs every property's runner once (default: quick tier, seed 1),
# prints per-file statement coverage and writes the uncovered ranges that are not plain error returns to
# /tmp/wvcov/uncovered.txt.  A measurement aid for widening the runners, not a check.
set -e
TIER=${1:-quick}
export GOFLAGS=-mod=mod GOPROXY=off
ROOT=$(cd "$(dirname "$0")/.." && pwd)
W=/tmp/wvcov; rm -rf $W; mkdir -p $W/data
PK=$(cd /repo && go list ./... | grep -v "/cmd/\|wtest\|wrand\|/werrors\|genie\|decompressors/brotli" | tr '\n' ',')
(cd $ROOT/harness && go build -cover -coverpkg=${PK}wv/cmd/wv -o $W/wv ./cmd/wv)
for i in 01 02 03 04 05 06 07 08 09 10 11 12 13 14 15 16 17 18 19; do
  (cd $ROOT/harness && WV_ROOT=$ROOT GOCOVERDIR=$W/data $W/wv C$i --tier $TIER --seed 1 --out $W/r_$i.json >$W/out_$i.txt 2>&1) || echo "C$i: rc=$?"
done
(cd $ROOT/harness && go tool covdata textfmt -i=$W/data -o $W/cov.txt)
python3 - "$W" <<'PY'
import re,collections,sys
W=sys.argv[1]
unc=collections.defaultdict(list); tot=collections.Counter(); cov=collections.Counter()
for l in open(W+'/cov.txt'):
    if l.startswith('mode'): continue
    m=re.match(r'(.*):(\d+)\.\d+,(\d+)\.\d+ (\d+) (\d+)',l)
    f,a,b,n,c=m.group(1),int(m.group(2)),int(m.group(3)),int(m.group(4)),int(m.group(5))
    if not f.startswith('github.com/itchio/wharf'): continue
    f=f.replace('github.com/itchio/wharf/','')
    tot[f]+=n
    if c>0: cov[f]+=n
    else: unc[f].append((a,b,n))
T=C=0
for f in sorted(tot):
    if f.endswith('.pb.go'): continue
    print(f"{cov[f]:5d}/{tot[f]:5d} {100*cov[f]//max(tot[f],1):3d}% {f}"); T+=tot[f]; C+=cov[f]
print(f"{C}/{T} statements ({100*C//T}%) of the non-generated wharf sources")
out=open(W+'/uncovered.txt','w')
for f in sorted(unc):
    if f.endswith('.pb.go'): continue
    src=open('/repo/'+f).read().split('\n')
    for a,b,n in sorted(unc[f]):
        body='\n'.join(src[a-1:b]); first=src[a-1]
        if re.search(r'if (\w*[eE]rr\w*|err) != nil', first) and b-a<=4: continue
        if re.search(r'return .*(errors\.|err\b|Err)', body) and b-a<=3: continue
        out.write(f"--- {f}:{a}-{b}\n"+'\n'.join('    '+l[:150] for l in body.split('\n')[:8])+'\n')
print("uncovered ranges that are not plain error returns:", W+'/uncovered.txt')
PY
