#!/bin/sh
# try_seed.sh <ID> <patch.diff> [tier]: apply a seeded change to /repo, run the check, undo it straight afterwards.
ID=$1; PATCH=$2; TIER=${3:-quick}
cd /verif
git -C /repo status --short | grep -q . && { echo "/repo is not clean"; exit 2; }
git -C /repo apply "$PATCH" || { echo APPLY-FAILED; exit 2; }
./check $ID --tier $TIER 2>&1 | grep -v '^KNOWN-FINDING' | tail -6 | cut -c1-400
git -C /repo checkout -- .
git -C /repo status --short
