#!/bin/sh
# try_seed_isolated.sh <ID> <patch.diff> [tier]: run ./check <ID> against a scratch worktree of /repo with the
# change applied, from a scratch copy of /verif (so /repo itself and /verif's outputs are not touched; usable
# while other checks are running against /repo). Removes both scratch trees afterwards.
ID=$1; PATCH=$2; TIER=${3:-quick}; TAG=${4:-$ID}
VS=/tmp/vs-$TAG; VR=/tmp/vs-repo-$TAG
rm -rf $VS; git -C /repo worktree remove --force $VR 2>/dev/null; git -C /repo worktree prune
git -C /repo worktree add -q --detach $VR HEAD || exit 2
git -C $VR apply "$PATCH" || { echo APPLY-FAILED; git -C /repo worktree remove --force $VR; exit 2; }
mkdir -p $VS && rsync -a --exclude .git --exclude 'replays/*.json' /verif/ $VS/
sed -i "s#=> /repo#=> $VR#" $VS/harness/go.mod
(cd $VS && WV_REPO=$VR ./check $ID --tier $TIER 2>&1 | grep -v '^KNOWN-FINDING' | tail -6 | cut -c1-400)
mkdir -p /tmp/vs-replays && cp $VS/replays/$ID-*.json /tmp/vs-replays/ 2>/dev/null
rm -rf $VS; git -C /repo worktree remove --force $VR; git -C /repo worktree prune
