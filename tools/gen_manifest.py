#!/usr/bin/env python3
"""Regenerate MANIFEST.json from tools/manifest_src.json (per-property texts) and lean/obligations.json."""
import json, os
ROOT = os.path.dirname(os.path.dirname(os.path.abspath(__file__)))
src = json.load(open(os.path.join(ROOT, "tools", "manifest_src.json")))
ob = json.load(open(os.path.join(ROOT, "lean", "obligations.json")))
props = [json.loads(l)["id"] for l in open(os.path.join(ROOT, "properties.jsonl"))]
checks, na = [], []
for pid in props:
    s = src["checks"].get(pid)
    if s is None or pid not in ob:
        na.append({"property_id": pid, "reason": src["not_applicable"].get(pid, "no check built yet for this property (work in progress; see DESIGN.md section 5)")})
        continue
    checks.append({
        "property_id": pid,
        "quick_cmd": "./check %s --tier quick" % pid,
        "thorough_cmd": "./check %s --tier thorough" % pid,
        "evidence_file": "/verif/evidence/%s.json" % pid,
        "replay_cmd_template": "./check %s --replay {path}" % pid,
        "engine": "lean4-model+correspondence",
        "level_claimed": {"category": "proof", "text": s["text"], "design_ref": s.get("design_ref", "DESIGN.md section 5, " + pid)},
        "level_note": s["note"],
        "technique": s.get("technique", "Lean 4 theorems about a formal model (kernel-checked, axiom-audited), model tied to /repo by regenerated kernels/constants/shape facts (wvextract) and a model-vs-implementation correspondence run with a model-free oracle"),
    })
m = {
    "version": 1,
    "setup_cmd": "./setup.sh",
    "hooks": {
        "guard": "verif",
        "enable": "no hooks: checks build /repo as it is (go build of the harness module with `replace github.com/itchio/wharf => /repo`); the tag name `verif` is reserved",
        "baseline_off_cmd": "for m in $(cat /w/out/gomods.txt); do MF=$(cd /repo/$m && . /w/out/goenv.sh && gomodflag); (cd /repo/$m && go test $MF -json -vet=off -count=1 -timeout 25m ./...); done",
        "source_commits": [],
        "add_only": True,
    },
    "engines": [
        {"name": "lean4-model+correspondence", "path": "/verif/lean, /verif/harness, /verif/check",
         "serves_properties": [c["property_id"] for c in checks],
         "kind_free_text": "Lean 4.33 formal model (lean/Wharf/Model), property theorems (lean/Wharf/Props) and helper proofs (lean/Wharf/Proofs); generated ties lean/Wharf/Gen regenerated from /repo by harness/cmd/wvextract on every run; compiled model driver wvmodel spoken to by the Go correspondence harness harness/cmd/wv which also runs a model-free oracle on the implementation"}
    ],
    "checks": checks,
    "notes": src.get("notes", ""),
    "not_applicable": na,
}
json.dump(m, open(os.path.join(ROOT, "MANIFEST.json"), "w"), indent=1)
print("MANIFEST.json: %d checks, %d not claimed" % (len(checks), len(na)))
